(* Facts about the traversal model (C09): nothing is reported but a place whose value its schema rejects; when the
   visited-path heuristic does not fire and no path is built twice, every such place is reported; the heuristic does
   fire on ordinary names (refutation witness). *)
From Coq Require Import List ZArith Bool Lia.
From Verif Require Import Base.Sx Spec.Visited Spec.Walk.
Import ListNotations.
Open Scope Z_scope.

Lemma in_skipn {A : Type} (x : A) (k : nat) (l : list A) : In x (skipn k l) -> In x l.
Proof.
  revert l; induction k as [|k IH]; intros l H; [exact H|]. destruct l as [|y t]; [exact H|]. right. apply IH. exact H.
Qed.

(* soundness: a reported place is one of the places, and its schema rejects its value *)
Theorem walk_sound : forall (fuel : nat) (l : list node) (visited : list bytes) (i : Z),
  In i (walk fuel l visited) -> exists n, In n l /\ n_id n = i /\ rejected n = true.
Proof.
  induction fuel as [|f IH]; intros l visited i Hin; [destruct Hin|].
  destruct l as [|n t]; [destruct Hin|]. cbn [walk] in Hin.
  assert (Hown : In i (if rejected n then [n_id n] else []) -> exists m, In m (n :: t) /\ n_id m = i /\ rejected m = true).
  { intros H. destruct (rejected n) eqn:Er; [|destruct H]. destruct H as [H | []]. exists n. split; [left; reflexivity | split; [exact H | exact Er]]. }
  assert (Hrest : forall l' v, (forall x, In x l' -> In x t) -> In i (walk f l' v) -> exists m, In m (n :: t) /\ n_id m = i /\ rejected m = true).
  { intros l' v Hsub H. destruct (IH l' v i H) as [m [Hm Hp]]. exists m. split; [right; apply Hsub; exact Hm | exact Hp]. }
  destruct (n_walked n).
  - destruct (is_visited (n_path n) visited).
    + apply (Hrest _ _ (fun x => in_skipn x (n_size n) t) Hin).
    + apply in_app_or in Hin. destruct Hin as [H | H]; [apply Hown; exact H | apply (Hrest t _ (fun x Hx => Hx) H)].
  - apply in_app_or in Hin. destruct Hin as [H | H]; [apply Hown; exact H | apply (Hrest t _ (fun x Hx => Hx) H)].
Qed.

Definition heuristic_silent (n : node) : Prop :=
  n_walked n = true -> overlap_scan (n_path n) (length (n_path n) - 1) = false.

Definition walked_paths (l : list node) : list bytes := map n_path (filter n_walked l).

Lemma not_recorded (p : bytes) (visited : list bytes) : ~ In p visited -> existsb (bytes_eqb p) visited = false.
Proof.
  intros H. destruct (existsb (bytes_eqb p) visited) eqn:E; [|reflexivity]. exfalso. apply H.
  apply existsb_exists in E. destruct E as [q [Hq He]]. apply bytes_eqb_eq in He. subst. exact Hq.
Qed.

(* completeness: when the heuristic stays silent and no path is built twice, every rejected value is reported, in order *)
Theorem walk_complete : forall (l : list node) (fuel : nat) (visited : list bytes),
  (length l <= fuel)%nat ->
  (forall n, In n l -> heuristic_silent n) ->
  NoDup (walked_paths l) ->
  (forall p, In p (walked_paths l) -> ~ In p visited) ->
  walk fuel l visited = map n_id (filter rejected l).
Proof.
  induction l as [|n t IH]; intros fuel visited Hf Hs Hnd Hfresh.
  - destruct fuel; reflexivity.
  - destruct fuel as [|f]; [cbn [length] in Hf; lia|]. cbn [length] in Hf. cbn [walk filter].
    assert (Hs' : forall m, In m t -> heuristic_silent m) by (intros m Hm; apply Hs; right; exact Hm).
    unfold walked_paths in *. cbn [filter] in Hnd, Hfresh.
    destruct (n_walked n) eqn:Ew.
    + cbn [map] in Hnd, Hfresh. inversion Hnd as [|x xs Hx Hnd']; subst.
      assert (Hv : is_visited (n_path n) visited = false).
      { unfold is_visited. rewrite (not_recorded _ _ (Hfresh _ (or_introl eq_refl))). rewrite (Hs n (or_introl eq_refl) Ew). reflexivity. }
      rewrite Hv. rewrite (IH f (n_path n :: visited)); [| lia | exact Hs' | exact Hnd' |].
      * destruct (rejected n); reflexivity.
      * intros p Hp [Heq | Hin]; [subst; contradiction | apply (Hfresh p (or_intror Hp) Hin)].
    + rewrite (IH f visited); [| lia | exact Hs' | exact Hnd | exact Hfresh].
      destruct (rejected n); reflexivity.
Qed.

Definition group_regular (g : list node) : Prop :=
  (forall n, In n g -> heuristic_silent n) /\ NoDup (walked_paths g).

Theorem reported_complete (groups : list (list node)) :
  (forall g, In g groups -> group_regular g) ->
  reported groups = flat_map (fun g => map n_id (filter rejected g)) groups.
Proof.
  intros H. unfold reported. induction groups as [|g t IH]; [reflexivity|]. cbn [flat_map].
  rewrite IH; [|intros g' Hg'; apply H; right; exact Hg']. f_equal.
  destruct (H g (or_introl eq_refl)) as [Hs Hnd]. unfold walk_group.
  apply walk_complete.
  - lia.
  - exact Hs.
  - exact Hnd.
  - intros p _ Hin; destruct Hin.
Qed.

Theorem reported_sound (groups : list (list node)) (i : Z) :
  In i (reported groups) -> exists g n, In g groups /\ In n g /\ n_id n = i /\ rejected n = true.
Proof.
  unfold reported. intros H. apply in_flat_map in H. destruct H as [g [Hg Hi]].
  destruct (walk_sound _ _ _ _ Hi) as [n [Hn Hp]]. exists g, n. split; [exact Hg | split; [exact Hn | exact Hp]].
Qed.

(* the heuristic is not silent on ordinary names: property "a" of definition "a" carries a value its schema rejects and
   nothing is reported *)
Definition defs_a_a : list node :=
  [ {| n_id := 0; n_path := [100;101;102;105;110;105;116;105;111;110;115;46;97]; n_judged := 0; n_size := 1; n_walked := true |};
    {| n_id := 1; n_path := str_definitions_a_a; n_judged := 2; n_size := 0; n_walked := true |} ].

Theorem rejected_value_not_reported :
  exists groups i g n, In g groups /\ In n g /\ n_id n = i /\ rejected n = true /\ ~ In i (reported groups).
Proof.
  exists [defs_a_a], 1, defs_a_a, {| n_id := 1; n_path := str_definitions_a_a; n_judged := 2; n_size := 0; n_walked := true |}.
  vm_compute. repeat split; auto.
Qed.

(* an array of arrays: the inner items' path "p.items.default.items.default" repeats its own tail *)
Example nested_items_collide :
  is_visited [112;46;105;116;101;109;115;46;100;101;102;97;117;108;116;46;105;116;101;109;115;46;100;101;102;97;117;108;116] [] = true.
Proof. reflexivity. Qed.
