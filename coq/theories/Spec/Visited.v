(* The "already visited" heuristic of the default / example validators (default_validator.go:46-73), byte for byte,
   and the result handling at the sites that consume what the schema walk returns (C07, C09). *)
From Coq Require Import List ZArith Bool Lia.
Import ListNotations.
Open Scope Z_scope.

Definition bytes := list Z.
Definition DOT : Z := 46.

Fixpoint bytes_eqb (a b : bytes) : bool :=
  match a, b with
  | [], [] => true
  | x :: a', y :: b' => Z.eqb x y && bytes_eqb a' b'
  | _, _ => false
  end.

(* strings.HasSuffix(s, suffix) *)
Definition has_suffix (s suffix : bytes) : bool :=
  (length suffix <=? length s)%nat && bytes_eqb (skipn (length s - length suffix) s) suffix.

(* for i := len(path) - 2; i >= 0; i-- { if path[i] == '.' && strings.HasSuffix(path[0:i], path[i+1:]) return true } *)
Fixpoint overlap_scan (path : bytes) (n : nat) : bool :=      (* examines indices n-1, n-2, ..., 0 *)
  match n with
  | O => false
  | S i =>
      (Z.eqb (nth i path 0) DOT && has_suffix (firstn i path) (skipn (S i) path)) || overlap_scan path i
  end.

Definition is_visited (path : bytes) (visited : list bytes) : bool :=
  existsb (bytes_eqb path) visited || overlap_scan path (length path - 1).

(* ------------------------------------------------------------------ facts *)

Lemma bytes_eqb_refl a : bytes_eqb a a = true.
Proof. induction a; simpl; [reflexivity|]. now rewrite Z.eqb_refl. Qed.

Lemma bytes_eqb_eq a : forall b, bytes_eqb a b = true <-> a = b.
Proof.
  induction a as [|x a IH]; intros [|y b]; simpl; try (split; congruence).
  rewrite andb_true_iff, Z.eqb_eq, IH. split; [intros [-> ->]; reflexivity|intros E; injection E; auto].
Qed.

(* a path without dots is visited only if it was recorded: the heuristic cannot fire *)
Lemma overlap_scan_no_dot path : (forall b, In b path -> b <> DOT) -> forall n, (n <= length path)%nat -> overlap_scan path n = false.
Proof.
  intros H n. induction n as [|i IH]; intros Hn; simpl; [reflexivity|].
  rewrite IH by lia. rewrite orb_false_r.
  assert (Hi : In (nth i path 0) path) by (apply nth_In; lia).
  apply H in Hi. apply Z.eqb_neq in Hi. now rewrite Hi.
Qed.

Theorem no_dot_not_falsely_visited path visited :
  (forall b, In b path -> b <> DOT) -> is_visited path visited = existsb (bytes_eqb path) visited.
Proof.
  intros H. unfold is_visited. rewrite (overlap_scan_no_dot path H) by lia. apply orb_false_r.
Qed.

(* a recorded path is visited *)
Theorem recorded_is_visited path visited : In path visited -> is_visited path visited = true.
Proof.
  intros H. unfold is_visited. apply orb_true_iff. left. apply existsb_exists. exists path. split; [assumption|apply bytes_eqb_refl].
Qed.

(* the heuristic fires exactly when some dotted suffix of the path equals a suffix of what precedes it *)
Theorem overlap_scan_spec path n : (n <= length path)%nat ->
  (overlap_scan path n = true <->
   exists i, (i < n)%nat /\ nth i path 0 = DOT /\ has_suffix (firstn i path) (skipn (S i) path) = true).
Proof.
  induction n as [|k IH]; intros Hn; simpl.
  - split; [discriminate|]. intros [i [Hi _]]. lia.
  - rewrite orb_true_iff, andb_true_iff, Z.eqb_eq, IH by lia. split.
    + intros [[H1 H2]|[i [Hi H]]]; [exists k; split; [lia|auto]|exists i; split; [lia|assumption]].
    + intros [i [Hi [H1 H2]]]. destruct (Nat.eq_dec i k) as [->|Hne]; [left; auto|right; exists i; split; [lia|auto]].
Qed.

(* the defect this heuristic causes (C09 finding): property "a" of definition "a" is never judged - the walk reaches
   "definitions.a.a", whose suffix "a" is a suffix of "definitions.a" *)
Definition str_definitions_a_a : bytes := [100;101;102;105;110;105;116;105;111;110;115;46;97;46;97].
Example definitions_a_a_collides : is_visited str_definitions_a_a [] = true.
Proof. reflexivity. Qed.

(* response codes and "default" contain no dot: the response-schema site never receives a nil result *)
Example response_paths_have_no_dot :
  is_visited [50;48;48] [] = false /\ is_visited [100;101;102;97;117;108;116] [] = false.
Proof. split; reflexivity. Qed.

(* ------------------------------------------------------------------ consuming the walk's result *)
(* default_validator.go:141-147 (as repaired), 221-232: red may be nil (schema == nil or visited path) *)
Inductive handled := HReported | HRedeemed | HIgnored | HNilDeref.

Definition handle_guarded (red : option (bool * bool)) : handled :=   (* (has errors or warnings, wantsRedeemOnMerge) *)
  match red with
  | None => HIgnored                                  (* HasErrorsOrWarnings() is false on nil; red != nil && ... *)
  | Some (true, _) => HReported
  | Some (false, true) => HRedeemed
  | Some (false, false) => HIgnored
  end.

Definition handle_unguarded (red : option (bool * bool)) : handled :=   (* "else if red.wantsRedeemOnMerge" *)
  match red with
  | None => HNilDeref
  | Some (true, _) => HReported
  | Some (false, true) => HRedeemed
  | Some (false, false) => HIgnored
  end.

(* the walk returns nil exactly for a nil schema or a visited path *)
Definition walk_result (schema_present : bool) (path : bytes) (visited : list bytes) (r : bool * bool) : option (bool * bool) :=
  if negb schema_present || is_visited path visited then None else Some r.

Theorem guarded_site_never_panics red : handle_guarded red <> HNilDeref.
Proof. destruct red as [[[|] [|]]|]; discriminate. Qed.

(* the unguarded site (response schemas) is only reached with a present schema, a dot-free path and an empty
   visited set: it cannot receive nil *)
Theorem response_site_never_panics path r :
  (forall b, In b path -> b <> DOT) -> handle_unguarded (walk_result true path [] r) <> HNilDeref.
Proof.
  intros H. unfold walk_result. rewrite no_dot_not_falsely_visited by assumption. simpl.
  destruct r as [[|] [|]]; discriminate.
Qed.

(* before the repair the parameter site was unguarded: a body parameter named "a.a" made it dereference nil *)
Example parameter_named_a_dot_a : handle_unguarded (walk_result true [97;46;97] [] (false, true)) = HNilDeref.
Proof. reflexivity. Qed.
