(* C10: the orchestration of spec.go:88-162 over the results of its stages, the final warnings bookkeeping
   (spec.go:111-116), and the required-definitions loop (spec.go:554-571) with its stop-early exit.
   Results are the ordered sets of Result/ResultModel.v (C20). *)
From Coq Require Import List ZArith Bool Lia Permutation.
From Verif Require Import Base.Sx Result.ResultModel Result.ResultLaws.
Import ListNotations.
Open Scope Z_scope.

(* ------------------------------------------------------------------ the final bookkeeping *)
(* defer { errs.MergeAsWarnings(warnings); warnings.AddErrors(errs.Warnings...) } with warnings = new(Result) *)
Definition finish (errs : result) : result * result :=
  let errs' := merge_as_warnings1 errs new_result in
  (errs', add_errors new_result (map Some (warns errs'))).

(* ------------------------------------------------------------------ the stages *)
(* Validate merges the results of its stages in a fixed order; with ContinueOnErrors off it returns after the first
   checkpoint at which the accumulated result has errors. A checkpoint follows stage 1 (schema), stage 2 (references)
   and stage 7 (required definitions). *)
Definition checkpoint_after (i : nat) : bool := Nat.eqb i 0 || Nat.eqb i 1 || Nat.eqb i 6.

Fixpoint stages_from (cont : bool) (i : nat) (acc : result) (stages : list result) : result :=
  match stages with
  | [] => acc
  | s :: t =>
      let acc' := merge1 acc s in
      if checkpoint_after i && negb cont && has_errors (Some acc') then acc'
      else stages_from cont (S i) acc' t
  end.

Definition validate_spec (cont : bool) (stages : list result) : result * result :=
  finish (stages_from cont 0 new_result stages).

(* ------------------------------------------------------------------ facts *)

Lemma merge1_errs_incl acc s m : In m (errs acc) -> In m (errs (merge1 acc s)).
Proof. intros H. apply (proj1 (merge_no_loss acc s m)). left. assumption. Qed.

Lemma stages_from_keeps cont stages : forall i acc m, In m (errs acc) -> In m (errs (stages_from cont i acc stages)).
Proof.
  induction stages as [|s t IH]; intros i acc m H; [assumption|].
  cbn [stages_from]. cbv zeta.
  destruct (checkpoint_after i && negb cont && has_errors (Some (merge1 acc s))).
  - apply merge1_errs_incl. assumption.
  - apply IH. apply merge1_errs_incl. assumption.
Qed.

(* monotonicity: whatever is reported when stopping early is reported with continue-on-errors *)
Theorem stop_early_subset_of_continue stages : forall i acc m,
  In m (errs (stages_from false i acc stages)) -> In m (errs (stages_from true i acc stages)).
Proof.
  induction stages as [|s t IH]; intros i acc m H; [assumption|].
  cbn [stages_from] in *. cbv zeta in *. cbn [negb] in *.
  rewrite andb_false_r. rewrite andb_false_l. rewrite andb_true_r in H.
  destruct (checkpoint_after i && has_errors (Some (merge1 acc s))).
  - apply stages_from_keeps. assumption.
  - apply IH. assumption.
Qed.

(* warnings never make a document invalid: the final bookkeeping does not touch the errors *)
Theorem finish_keeps_errors e : errs (fst (finish e)) = errs e.
Proof. unfold finish. simpl. destruct (merge_as_warnings_moves_all e new_result 0) as [_ [H _]]. exact H. Qed.

Theorem validity_is_absence_of_errors cont stages :
  is_valid (Some (fst (validate_spec cont stages))) = true <-> errs (fst (validate_spec cont stages)) = [].
Proof. apply valid_iff_no_errors. Qed.

(* the separately returned warnings are exactly the warnings attached to the main result *)
Lemma add_msgs_nil_nodup l : NoDup l -> add_msgs [] (map Some l) = l.
Proof.
  intros H. rewrite add_msgs_spec. unfold spec_add. simpl.
  assert (G : forall seen, (forall x, In x l -> ~ In x seen) -> dedup seen (somes (map Some l)) = l).
  { clear -H. induction l as [|x t IH]; intros seen Hs; simpl; [reflexivity|].
    inversion H as [|? ? Hx Ht]; subst.
    assert (E : mem x seen = false) by (apply mem_false_In, Hs; left; reflexivity).
    rewrite E. f_equal. apply IH; [assumption|].
    intros y Hy [->|Hin]; [contradiction|]. apply (Hs y); [right; assumption|assumption]. }
  apply G. intros x _ [].
Qed.

Theorem returned_warnings_are_the_attached_ones e :
  NoDup (warns e) -> errs (snd (finish e)) = warns (fst (finish e)).
Proof.
  intros H. unfold finish. simpl. unfold add_errors. simpl.
  apply add_msgs_nil_nodup.
  (* warns (merge_as_warnings1 e new_result) = warns e since new_result is empty *)
  unfold merge_as_warnings1, add_warnings. simpl. exact H.
Qed.

(* ------------------------------------------------------------------ the required-definitions loop *)
(* spec.go:554-571: for each definition (in the order [defs] of this run), for each required name, merge the result of
   checking it; with ContinueOnErrors off, leave the loop at the first invalid one.  [check d] is the list of the
   results of the required names of definition d, in order. *)
Fixpoint required_inner (cont : bool) (acc : result) (rs : list result) : result * bool :=   (* (acc, stopped) *)
  match rs with
  | [] => (acc, false)
  | r :: t =>
      let acc' := merge1 acc r in
      if negb (is_valid (Some r)) && negb cont then (acc', true) else required_inner cont acc' t
  end.

Fixpoint required_defs (cont : bool) (acc : result) (defs : list (list result)) : result :=
  match defs with
  | [] => acc
  | d :: t => let '(acc', stopped) := required_inner cont acc d in
              if stopped then acc' else required_defs cont acc' t
  end.

(* with continue-on-errors every definition is visited: the set of messages does not depend on the order in which
   the map of definitions was iterated *)
Lemma required_inner_cont acc rs : required_inner true acc rs = (fold_left merge1 rs acc, false).
Proof. revert acc. induction rs as [|r t IH]; intros acc; simpl; [reflexivity|]. rewrite andb_false_r. apply IH. Qed.

Lemma required_defs_cont defs : forall acc, required_defs true acc defs = fold_left merge1 (concat defs) acc.
Proof.
  induction defs as [|d t IH]; intros acc; simpl; [reflexivity|].
  rewrite required_inner_cont, fold_left_app. apply IH.
Qed.

Lemma fold_merge_errs_In rs : forall acc m,
  In m (errs (fold_left merge1 rs acc)) <-> In m (errs acc) \/ exists r, In r rs /\ In m (errs r).
Proof.
  induction rs as [|r t IH]; intros acc m; simpl.
  - split; [auto|]. intros [H|[r [[] _]]]. assumption.
  - rewrite IH. rewrite (proj1 (merge_no_loss acc r m)). split.
    + intros [[H|H]|[r' [Hin H]]]; [auto|right; exists r; auto|right; exists r'; auto].
    + intros [H|[r' [[->|Hin] H]]]; [auto|auto|right; exists r'; auto].
Qed.

Theorem required_defs_order_independent defs defs' acc m :
  Permutation defs defs' ->
  (In m (errs (required_defs true acc defs)) <-> In m (errs (required_defs true acc defs'))).
Proof.
  intros Hp. rewrite !required_defs_cont, !fold_merge_errs_In.
  assert (Hc : forall r, In r (concat defs) <-> In r (concat defs')).
  { intros r. rewrite !in_concat. split; intros [l [Hl Hr]]; exists l; split; auto.
    - eapply Permutation_in; eassumption.
    - eapply Permutation_in; [apply Permutation_sym|]; eassumption. }
  split; intros [H|[r [Hin H]]]; auto; right; exists r; split; auto; apply Hc; assumption.
Qed.

(* with stop-early the loop reports the first offender of the iteration order: over a map that order changes from run
   to run (the repaired defect); the loop now iterates the definitions by sorted name, i.e. [defs] is a function of the
   document and the result is too. The witness below is the pre-repair behaviour: two orders, two different reports. *)
Example stop_early_depended_on_map_order :
  let bad1 := mkResult [1] [] 0 in
  let bad2 := mkResult [2] [] 0 in
  errs (required_defs false new_result [[bad1]; [bad2]]) = [1] /\
  errs (required_defs false new_result [[bad2]; [bad1]]) = [2].
Proof. split; reflexivity. Qed.
