(* L1 model of the extra rules of spec validation over the analysed specification (C03):
   spec.go:164-187 (paths present, "{}"), 189-212 (operation ids), 437-468 + helpers.go:148-158 (path template vs
   declared path parameters), 554-629 (required must be defined), 631-774 (overlap, body / formData, path parameters
   required, duplicate placeholders), 797-824 (unique name + location).  What go-openapi/loads, analysis and spec
   compute (expansion, operation enumeration, parameter merging) is input.  No proofs in this file. *)
From Coq Require Import List ZArith Bool.
From Verif Require Import Base.Sx Base.GoVal.
Import ListNotations.
Open Scope Z_scope.

Definition bytes := list Z.
Definition LBRACE : Z := 123.
Definition RBRACE : Z := 125.
Definition SLASH : Z := 47.

Fixpoint bytes_eqb (a b : bytes) : bool :=
  match a, b with
  | [], [] => true
  | x :: a', y :: b' => Z.eqb x y && bytes_eqb a' b'
  | _, _ => false
  end.

(* ------------------------------------------------------------------ the analysed specification *)

Inductive sreq : Type :=
| SReq (props : list str) (pats : list str) (ap : option (bool * option sreq)).

Record aop : Type := {
  ao_method : str;
  ao_path : bytes;
  ao_pathid : str;
  ao_opid : str;
  ao_declared : list (str * str);                  (* operation-level parameters: (name, in) *)
  ao_merged : list (str * str * bool * bytes);     (* merged parameters: (name, in, required, bytes of the name) *)
}.

Record adef : Type := { ad_name : str; ad_required : list str; ad_schema : sreq }.

Record aspec : Type := {
  as_paths_nil : bool;
  as_paths_empty : bool;
  as_paths : list bytes;
  as_ops : list aop;
  as_ids : list str;
  as_defs : list adef;                              (* sorted by name: the order the repaired loop uses *)
}.

Record roracle : Type := { ro_ok : str -> bool; ro_match : str -> str -> bool }.

(* rule errors: (code, arguments) *)
Definition R_NO_PATHS := 1.
Definition R_EMPTY_PLACEHOLDER := 2.
Definition R_DUP_OPID := 3.
Definition R_DUP_PARAM := 4.
Definition R_BODY_AND_FORM := 5.
Definition R_MULTI_BODY := 6.
Definition R_PATH_PARAM_NOT_REQUIRED := 7.
Definition R_DUP_PLACEHOLDER := 8.
Definition R_NO_PARAM_FOR_PLACEHOLDER := 9.
Definition R_PARAM_NOT_IN_PATH := 10.
Definition R_REQUIRED_UNDEFINED := 11.
Definition R_OVERLAP := 12.
Definition R_BAD_PATTERN := 13.

Definition rerr := (Z * list Z)%type.

(* ------------------------------------------------------------------ path templates *)

(* the match of `{[^{}]+?}` that starts at the head of [s] (s = '{' :: rest): the bytes up to and including the first '}'
   when at least one byte that is not a brace precedes it *)
Fixpoint scan_body (rest : bytes) (acc : bytes) : option (bytes * bytes) :=   (* (matched text without braces, remainder) *)
  match rest with
  | [] => None
  | c :: t =>
      if Z.eqb c RBRACE then match acc with [] => None | _ => Some (acc, t) end
      else if Z.eqb c LBRACE then None
      else scan_body t (acc ++ [c])
  end.

(* leftmost non-overlapping matches in one segment (regexp.FindAllString) *)
Fixpoint find_all (fuel : nat) (s : bytes) : list bytes :=
  match fuel with
  | O => []
  | S f =>
      match s with
      | [] => []
      | c :: t =>
          if Z.eqb c LBRACE then
            match scan_body t [] with
            | Some (m, rest) => (LBRACE :: m ++ [RBRACE]) :: find_all f rest
            | None => find_all f t
            end
          else find_all f t
      end
  end.

(* strings.Split(path, "/") *)
Fixpoint split_slash (s : bytes) (cur : bytes) : list bytes :=
  match s with
  | [] => [cur]
  | c :: t => if Z.eqb c SLASH then cur :: split_slash t [] else split_slash t (cur ++ [c])
  end.

(* helpers.go:148-158 *)
Definition extract_path_params (path : bytes) : list bytes :=
  flat_map (fun seg => find_all (S (length seg)) seg) (split_slash path []).

(* helpers.go:130-146: every match replaced by "X" *)
Fixpoint replace_all (fuel : nat) (s : bytes) : bytes :=
  match fuel with
  | O => s
  | S f =>
      match s with
      | [] => []
      | c :: t =>
          if Z.eqb c LBRACE then
            match scan_body t [] with
            | Some (_, rest) => 88 :: replace_all f rest
            | None => c :: replace_all f t
            end
          else c :: replace_all f t
      end
  end.

Fixpoint join_slash (l : list bytes) : bytes :=
  match l with
  | [] => []
  | [x] => x
  | x :: t => x ++ SLASH :: join_slash t
  end.

Definition strip_params (path : bytes) : bytes :=
  join_slash (map (fun seg => replace_all (S (length seg)) seg) (split_slash path [])).

Fixpoint contains_empty_placeholder (s : bytes) : bool :=       (* strings.Contains(k, "{}") *)
  match s with
  | a :: ((b :: _) as t) => (Z.eqb a LBRACE && Z.eqb b RBRACE) || contains_empty_placeholder t
  | _ => false
  end.

(* ------------------------------------------------------------------ the rules *)

(* spec.go:164-187 *)
Definition rule_paths (a : aspec) : list rerr :=
  if as_paths_nil a then [(R_NO_PATHS, [])]
  else if as_paths_empty a then []                              (* a warning only *)
  else flat_map (fun k => if contains_empty_placeholder k then [(R_EMPTY_PLACEHOLDER, k)] else []) (as_paths a).

(* spec.go:189-212 *)
Definition count_occ_z (x : Z) (l : list Z) : Z := Z.of_nat (length (filter (Z.eqb x) l)).

Fixpoint dedup_z (l : list Z) : list Z :=
  match l with
  | [] => []
  | x :: t => if existsb (Z.eqb x) t then dedup_z t else x :: dedup_z t
  end.

Definition rule_opids (a : aspec) : list rerr :=
  let ids := filter (fun v => negb (Z.eqb v 0)) (as_ids a) in
  flat_map (fun k => let n := count_occ_z k ids in if 1 <? n then [(R_DUP_OPID, [k; n])] else []) (dedup_z ids).

(* spec.go:797-824 *)
Fixpoint unique_params (opid : str) (ps : list (str * str)) (seen : list (str * str)) : list rerr :=
  match ps with
  | [] => []
  | (name, loc) :: t =>
      if Z.eqb name 0 then unique_params opid t seen
      else
        let dup := existsb (fun s => Z.eqb (fst s) name && Z.eqb (snd s) loc) seen in
        (if dup then [(R_DUP_PARAM, [loc; name; opid])] else []) ++ unique_params opid t ((name, loc) :: seen)
  end.

(* spec.go:750-759: for i, p; for j, q: if p == q && i > j { error; break } *)
Fixpoint dup_placeholders (path : bytes) (seen : list bytes) (l : list bytes) : list rerr :=
  match l with
  | [] => []
  | p :: t =>
      (if existsb (bytes_eqb p) seen then [(R_DUP_PLACEHOLDER, path ++ [-1] ++ p)] else []) ++ dup_placeholders path (seen ++ [p]) t
  end.

Definition braces (n : bytes) : bytes := LBRACE :: n ++ [RBRACE].

(* spec.go:437-468 *)
Definition path_param_presence (path : bytes) (from_path : list bytes) (from_op : list bytes) : list rerr :=
  flat_map (fun l => if existsb (fun r => bytes_eqb l (braces r)) from_op then [] else [(R_NO_PARAM_FOR_PLACEHOLDER, l)]) from_path ++
  flat_map (fun p => if existsb (fun r => bytes_eqb (braces p) r) from_path then [] else [(R_PARAM_NOT_IN_PATH, path ++ [-1] ++ p)]) from_op.

Definition k_body : str := 32.
Definition k_formdata : str := 33.
Definition k_path : str := 34.

(* spec.go:672-771, the part of validateParameters that is about one operation *)
Definition rule_operation (o : aop) : list rerr :=
  let merged := ao_merged o in
  let bodies := filter (fun p : str * str * bool * bytes => Z.eqb (snd (fst (fst p))) k_body) merged in
  let has_form := existsb (fun p : str * str * bool * bytes => Z.eqb (snd (fst (fst p))) k_formdata) merged in
  let path_params := filter (fun p : str * str * bool * bytes => Z.eqb (snd (fst (fst p))) k_path) merged in
  unique_params (ao_opid o) (ao_declared o) [] ++
  flat_map (fun p : str * str * bool * bytes => if snd (fst p) then [] else [(R_PATH_PARAM_NOT_REQUIRED, [ao_opid o; fst (fst (fst p))])]) path_params ++
  (match bodies with _ :: _ => if has_form then [(R_BODY_AND_FORM, [ao_opid o])] else [] | [] => [] end) ++
  (if (1 <? Z.of_nat (length bodies)) then [(R_MULTI_BODY, [ao_opid o])] else []) ++
  let in_path := extract_path_params (ao_path o) in
  dup_placeholders (ao_path o) [] in_path ++
  path_param_presence (ao_path o) in_path (map snd path_params).

(* spec.go:646-670 with StrictPathParamUniqueness: per method, the first path seen with a given stripped form wins *)
Fixpoint overlaps (ops : list aop) (seen : list (str * bytes)) : list rerr :=
  match ops with
  | [] => []
  | o :: t =>
      let key := strip_params (ao_path o) in
      if existsb (fun s => Z.eqb (fst s) (ao_method o) && bytes_eqb (snd s) key) seen
      then (R_OVERLAP, [ao_method o]) :: overlaps t seen
      else overlaps t ((ao_method o, key) :: seen)
  end.

Definition rule_parameters (strict : bool) (a : aspec) : list rerr :=
  (if strict then overlaps (as_ops a) [] else []) ++ flat_map rule_operation (as_ops a).

(* spec.go:573-629, errors only (the read-only warnings are not modelled) *)
Section Req.
Variable RO : roracle.

Fixpoint required_property (name : str) (defn : str) (s : sreq) : list rerr * bool :=    (* (errors, valid) *)
  match s with
  | SReq props pats ap =>
      let property_match := existsb (Z.eqb name) props in
      let bad_patterns := flat_map (fun pp => if ro_ok RO pp then [] else [(R_BAD_PATTERN, [pp; defn])]) pats in
      let pattern_match := existsb (fun pp => ro_ok RO pp && ro_match RO pp name) pats in
      let '(nested, ap_match) :=
        if property_match || pattern_match then ([], false)
        else match ap with
             | Some (true, None) => ([], true)
             | Some (_, Some s') => let '(e, ok) := required_property name defn s' in (e, ok)
             | _ => ([], false)
             end in
      let errs := bad_patterns ++ nested ++
                  (if property_match || pattern_match || ap_match then [] else [(R_REQUIRED_UNDEFINED, [name; defn])]) in
      (errs, match errs with [] => true | _ => false end)
  end.

(* spec.go:554-571 over the definitions in sorted order *)
Fixpoint required_names (cont : bool) (defn : str) (s : sreq) (names : list str) : list rerr * bool :=   (* (errors, stopped) *)
  match names with
  | [] => ([], false)
  | n :: t =>
      let '(e, ok) := required_property n defn s in
      if negb ok && negb cont then (e, true)
      else let '(e', st) := required_names cont defn s t in (e ++ e', st)
  end.

Fixpoint rule_required (cont : bool) (defs : list adef) : list rerr :=
  match defs with
  | [] => []
  | d :: t =>
      let '(e, stopped) := required_names cont (ad_name d) (ad_schema d) (ad_required d) in
      if stopped then e else e ++ rule_required cont t
  end.

End Req.

(* spec.go:126-161: operation ids, parameters and required definitions form one group; when it reports an error and
   continue-on-errors is off, validation returns before the rules about the paths object are run *)
Definition is_nil {A : Type} (l : list A) : bool := match l with [] => true | _ => false end.

Definition all_rules (RO : roracle) (cont strict : bool) (a : aspec) : list rerr :=
  let group := rule_opids a ++ rule_parameters strict a ++ rule_required RO cont (as_defs a) in
  if negb cont && negb (is_nil group) then group else group ++ rule_paths a.

(* ------------------------------------------------------------------ codec *)

Fixpoint get_sreq_fuel (fuel : nat) (s : sx) : option sreq :=
  match fuel with
  | O => None
  | S f =>
      match s with
      | L [props; pats; ap] =>
          match getZs props, getZs pats,
                getOpt (fun e => match e with
                                 | L [b; o] => match getBool b, getOpt (get_sreq_fuel f) o with
                                               | Some b, Some o => Some (b, o)
                                               | _, _ => None
                                               end
                                 | _ => None
                                 end) ap with
          | Some props, Some pats, Some ap => Some (SReq props pats ap)
          | _, _, _ => None
          end
      | _ => None
      end
  end.
Definition get_sreq (s : sx) : option sreq := get_sreq_fuel (S (sx_depth s)) s.

Definition get_aop (s : sx) : option aop :=
  match s with
  | L [A m; p; A pid; A opid; decl; merged] =>
      match getZs p, getList (getPair getZ getZ) decl,
            getList (fun e => match e with
                              | L [A n; A i; r; nb] => match getBool r, getZs nb with
                                                       | Some r, Some nb => Some (n, i, r, nb)
                                                       | _, _ => None
                                                       end
                              | _ => None
                              end) merged with
      | Some p, Some decl, Some merged =>
          Some {| ao_method := m; ao_path := p; ao_pathid := pid; ao_opid := opid; ao_declared := decl; ao_merged := merged |}
      | _, _, _ => None
      end
  | _ => None
  end.

Definition get_adef (s : sx) : option adef :=
  match s with
  | L [A n; req; sch] =>
      match getZs req, get_sreq sch with
      | Some req, Some sch => Some {| ad_name := n; ad_required := req; ad_schema := sch |}
      | _, _ => None
      end
  | _ => None
  end.

Definition of_rerr (e : rerr) : sx := L [A (fst e); ofZs (snd e)].

(* (pathsNil pathsEmpty (paths) (ops) (ids) (defs) ((reok) (rematch))) -> for cont in {0,1}, strict in {1,0}: the rule errors *)
Definition run_rules (s : sx) : sx :=
  match s with
  | L [pn; pe; paths; ops; ids; defs; L [reok; rematch]] =>
      match getBool pn, getBool pe, getList getZs paths, getList get_aop ops, getZs ids, getList get_adef defs,
            getZs reok, getList (getPair getZ getZ) rematch with
      | Some pn, Some pe, Some paths, Some ops, Some ids, Some defs, Some reok, Some rematch =>
          let a := {| as_paths_nil := pn; as_paths_empty := pe; as_paths := paths; as_ops := ops; as_ids := ids; as_defs := defs |} in
          let ro := {| ro_ok := fun p => memZ p reok;
                       ro_match := fun p x => existsb (fun e => Z.eqb (fst e) p && Z.eqb (snd e) x) rematch |} in
          let one (cont strict : bool) := L (map of_rerr (all_rules ro cont strict a)) in
          L [one false true; one false false; one true true; one true false]
      | _, _, _, _, _, _, _, _ => sx_err
      end
  | _ => sx_err
  end.
