(* L1 model of the traversal of the default / example validators (default_validator.go:98-305, example_validator.go):
   which of the places that carry a value are judged, given the "already visited" heuristic (Spec/Visited.v).
   The analysed specification arrives as groups (one per reset of the visited set: a parameter, a response schema, the
   definitions) of nodes in pre-order; a node knows the size of its subtree, so that skipping a visited path skips
   what hangs below it, as the early return of validateDefaultValueSchemaAgainstSchema does.  No proofs in this file. *)
From Coq Require Import List ZArith Bool.
From Verif Require Import Base.Sx Spec.Visited.
Import ListNotations.
Open Scope Z_scope.

Record node : Type := {
  n_id : Z;                (* the harness's number of the place *)
  n_path : bytes;          (* the path string the walk builds for it *)
  n_judged : Z;            (* 0: carries no value; 1: carries a value its schema accepts; 2: a value its schema rejects *)
  n_size : nat;            (* number of nodes below it (pre-order) *)
  n_walked : bool;         (* false: a simple parameter / header / items place, judged without consulting the visited set *)
}.

Definition rejected (n : node) : bool := Z.eqb (n_judged n) 2.

(* validateDefaultValueSchemaAgainstSchema over a pre-order forest *)
Fixpoint walk (fuel : nat) (l : list node) (visited : list bytes) : list Z :=
  match fuel with
  | O => []
  | S f =>
      match l with
      | [] => []
      | n :: t =>
          if n_walked n then
            if is_visited (n_path n) visited then walk f (skipn (n_size n) t) visited
            else (if rejected n then [n_id n] else []) ++ walk f t (n_path n :: visited)
          else (if rejected n then [n_id n] else []) ++ walk f t visited
      end
  end.

Definition walk_group (g : list node) : list Z := walk (S (length g)) g [].

(* the places whose value is reported *)
Definition reported (groups : list (list node)) : list Z := flat_map walk_group groups.

(* ------------------------------------------------------------------ codec *)

Definition get_node (s : sx) : option node :=
  match s with
  | L [A i; p; A j; A sz; w] =>
      match getZs p, getBool w with
      | Some p, Some w => Some {| n_id := i; n_path := p; n_judged := j; n_size := Z.to_nat sz; n_walked := w |}
      | _, _ => None
      end
  | _ => None
  end.

(* ((node...)...) -> (reported ids) *)
Definition run_walk (s : sx) : sx :=
  match getList (getList get_node) s with
  | Some groups => ofZs (reported groups)
  | None => sx_err
  end.
