(* Facts about the model of the extra rules (C03): each rule reports nothing exactly when the documented condition holds,
   and the early stop of continue-on-errors = false never turns an invalid specification into a valid one. *)
From Coq Require Import List ZArith Bool Lia.
From Verif Require Import Base.Sx Base.GoVal Spec.Rules.
Import ListNotations.
Open Scope Z_scope.

(* ------------------------------------------------------------------ generic *)

Lemma bytes_eqb_eq a b : bytes_eqb a b = true <-> a = b.
Proof.
  revert b; induction a as [|x a IH]; intros [|y b]; simpl; split; intros H; try congruence; try discriminate.
  - apply andb_true_iff in H. destruct H as [H1 H2]. apply Z.eqb_eq in H1. apply IH in H2. subst; reflexivity.
  - inversion H; subst. rewrite Z.eqb_refl. simpl. apply IH. reflexivity.
Qed.

Lemma bytes_eqb_refl a : bytes_eqb a a = true.
Proof. apply bytes_eqb_eq; reflexivity. Qed.

Lemma flat_map_nil {A B : Type} (f : A -> list B) (l : list A) :
  flat_map f l = [] <-> forall x, In x l -> f x = [].
Proof.
  induction l as [|x l IH]; simpl.
  - split; [intros _ y Hy; destruct Hy | reflexivity].
  - split.
    + intros H. apply app_eq_nil in H. destruct H as [H1 H2]. intros y Hy. destruct Hy as [Hy | Hy].
      * subst; exact H1.
      * apply IH; assumption.
    + intros H. rewrite (H x (or_introl eq_refl)). simpl. apply IH. intros y Hy. apply H. right; exact Hy.
Qed.

Lemma is_nil_true {A : Type} (l : list A) : is_nil l = true <-> l = [].
Proof. destruct l; simpl; split; congruence. Qed.

Lemma cond_nil {A : Type} (b : bool) (x : A) : (if b then [x] else []) = [] <-> b = false.
Proof. destruct b; split; congruence. Qed.

(* ------------------------------------------------------------------ operation ids (spec.go:189-212) *)

Lemma count_occ_filter (x : Z) (l : list Z) : count_occ Z.eq_dec l x = length (filter (Z.eqb x) l).
Proof.
  induction l as [|y l IH]; simpl; [reflexivity|].
  destruct (Z.eq_dec y x) as [e|n].
  - subst. rewrite Z.eqb_refl. simpl. rewrite IH. reflexivity.
  - destruct (Z.eqb_spec x y) as [e|_]; [congruence | exact IH].
Qed.

Lemma dedup_z_in (x : Z) (l : list Z) : In x (dedup_z l) <-> In x l.
Proof.
  induction l as [|y l IH]; simpl; [tauto|].
  destruct (existsb (Z.eqb y) l) eqn:E.
  - rewrite IH. split; [tauto|]. intros [H | H]; [|exact H]. subst.
    apply existsb_exists in E. destruct E as [z [Hz Hyz]]. apply Z.eqb_eq in Hyz. subst. exact Hz.
  - simpl. rewrite IH. tauto.
Qed.

Definition named_ids (a : aspec) : list Z := filter (fun v => negb (Z.eqb v 0)) (as_ids a).

Theorem rule_opids_exact (a : aspec) : rule_opids a = [] <-> NoDup (named_ids a).
Proof.
  unfold rule_opids. fold (named_ids a). set (ids := named_ids a).
  rewrite flat_map_nil. rewrite (NoDup_count_occ Z.eq_dec). split.
  - intros H x. destruct (in_dec Z.eq_dec x ids) as [Hin | Hout].
    + specialize (H x (proj2 (dedup_z_in x ids) Hin)). apply cond_nil in H.
      unfold count_occ_z in H. rewrite count_occ_filter. apply Z.ltb_ge in H. lia.
    + apply (count_occ_not_In Z.eq_dec) in Hout. rewrite Hout. lia.
  - intros H x _. apply cond_nil. unfold count_occ_z. apply Z.ltb_ge. specialize (H x). rewrite count_occ_filter in H. lia.
Qed.

(* ------------------------------------------------------------------ unique name + location (spec.go:797-824) *)

Definition named_param (p : str * str) : bool := negb (Z.eqb (fst p) 0).

Lemma pair_seen (name loc : Z) (seen : list (str * str)) :
  existsb (fun s => Z.eqb (fst s) name && Z.eqb (snd s) loc) seen = true <-> In (name, loc) seen.
Proof.
  rewrite existsb_exists. split.
  - intros [[n l] [Hin H]]. simpl in H. apply andb_true_iff in H. destruct H as [H1 H2].
    apply Z.eqb_eq in H1. apply Z.eqb_eq in H2. subst. exact Hin.
  - intros H. exists (name, loc). simpl. rewrite !Z.eqb_refl. split; [exact H | reflexivity].
Qed.

Lemma unique_params_gen (opid : str) (ps seen : list (str * str)) :
  unique_params opid ps seen = [] <->
  NoDup (filter named_param ps) /\ (forall p, In p (filter named_param ps) -> ~ In p seen).
Proof.
  revert seen; induction ps as [|[name loc] t IH]; intros seen; cbn [unique_params filter].
  - split; [intros _; split; [constructor | intros p Hp; destruct Hp] | reflexivity].
  - change (named_param (name, loc)) with (negb (Z.eqb name 0)). destruct (Z.eqb name 0) eqn:E0; cbn [negb].
    + apply IH.
    + split.
      * intros H. apply app_eq_nil in H. destruct H as [H1 H2]. apply cond_nil in H1. apply IH in H2. destruct H2 as [Hnd Hns].
        assert (Hnot : ~ In (name, loc) seen).
        { intros Hin. apply pair_seen in Hin. congruence. }
        split.
        -- constructor; [|exact Hnd]. intros Hin. apply (Hns _ Hin). left; reflexivity.
        -- intros p [Hp | Hp]; [subst; exact Hnot|]. intros Hin. apply (Hns _ Hp). right; exact Hin.
      * intros [Hnd Hns]. inversion Hnd as [|x l Hx Hnd']; subst.
        assert (Hd : existsb (fun s => Z.eqb (fst s) name && Z.eqb (snd s) loc) seen = false).
        { destruct (existsb (fun s => Z.eqb (fst s) name && Z.eqb (snd s) loc) seen) eqn:Ed; [|reflexivity].
          apply pair_seen in Ed. exfalso. apply (Hns (name, loc)); [left; reflexivity | exact Ed]. }
        rewrite Hd. cbn [app]. apply IH. split; [exact Hnd'|].
        intros p Hp [Heq | Hin]; [subst; contradiction|]. apply (Hns p); [right; exact Hp | exact Hin].
Qed.

Theorem unique_params_exact (opid : str) (ps : list (str * str)) :
  unique_params opid ps [] = [] <-> NoDup (filter named_param ps).
Proof.
  rewrite unique_params_gen. split; [intros [H _]; exact H | intros H; split; [exact H | intros p _ Hin; destruct Hin]].
Qed.

(* ------------------------------------------------------------------ duplicate placeholders (spec.go:750-759) *)

Lemma bytes_seen (p : bytes) (seen : list bytes) : existsb (bytes_eqb p) seen = true <-> In p seen.
Proof.
  rewrite existsb_exists. split.
  - intros [q [Hin H]]. apply bytes_eqb_eq in H. subst; exact Hin.
  - intros H. exists p. split; [exact H | apply bytes_eqb_refl].
Qed.

Lemma dup_placeholders_gen (path : bytes) (l seen : list bytes) :
  dup_placeholders path seen l = [] <-> NoDup l /\ (forall p, In p l -> ~ In p seen).
Proof.
  revert seen; induction l as [|p t IH]; intros seen; simpl.
  - split; [intros _; split; [constructor | intros p Hp; destruct Hp] | reflexivity].
  - split.
    + intros H. apply app_eq_nil in H. destruct H as [H1 H2]. apply cond_nil in H1. apply IH in H2. destruct H2 as [Hnd Hns].
      assert (Hnot : ~ In p seen). { intros Hin. apply bytes_seen in Hin. congruence. }
      split.
      * constructor; [|exact Hnd]. intros Hin. apply (Hns _ Hin). apply in_or_app. right; left; reflexivity.
      * intros q [Hq | Hq]; [subst; exact Hnot|]. intros Hin. apply (Hns _ Hq). apply in_or_app. left; exact Hin.
    + intros [Hnd Hns]. inversion Hnd as [|x l Hx Hnd']; subst.
      assert (Hd : existsb (bytes_eqb p) seen = false).
      { destruct (existsb (bytes_eqb p) seen) eqn:Ed; [|reflexivity]. apply bytes_seen in Ed. exfalso. apply (Hns p); [left; reflexivity | exact Ed]. }
      rewrite Hd. cbn [app]. apply IH. split; [exact Hnd'|].
      intros q Hq Hin. apply in_app_or in Hin. destruct Hin as [Hin | [Heq | []]].
      * apply (Hns q); [right; exact Hq | exact Hin].
      * subst. contradiction.
Qed.

Theorem dup_placeholders_exact (path : bytes) (l : list bytes) : dup_placeholders path [] l = [] <-> NoDup l.
Proof.
  rewrite dup_placeholders_gen. split; [intros [H _]; exact H | intros H; split; [exact H | intros p _ Hin; destruct Hin]].
Qed.

(* ------------------------------------------------------------------ template vs declared path parameters (spec.go:437-468) *)

Theorem path_param_presence_exact (path : bytes) (from_path from_op : list bytes) :
  path_param_presence path from_path from_op = [] <->
  (forall l, In l from_path -> exists r, In r from_op /\ l = braces r) /\
  (forall p, In p from_op -> In (braces p) from_path).
Proof.
  unfold path_param_presence. split.
  - intros H. apply app_eq_nil in H. destruct H as [H1 H2]. split.
    + intros l Hl. apply (proj1 (flat_map_nil _ _) H1) in Hl.
      destruct (existsb (fun r => bytes_eqb l (braces r)) from_op) eqn:E; [|discriminate].
      apply existsb_exists in E. destruct E as [r [Hr Heq]]. apply bytes_eqb_eq in Heq. exists r. split; assumption.
    + intros p Hp. apply (proj1 (flat_map_nil _ _) H2) in Hp.
      destruct (existsb (fun r => bytes_eqb (braces p) r) from_path) eqn:E; [|discriminate].
      apply existsb_exists in E. destruct E as [r [Hr Heq]]. apply bytes_eqb_eq in Heq. subst. exact Hr.
  - intros [H1 H2]. assert (Ha : forall (x y : list rerr), x = [] -> y = [] -> x ++ y = []) by (intros x y -> ->; reflexivity).
    apply Ha; apply flat_map_nil.
    + intros l Hl. destruct (H1 l Hl) as [r [Hr Heq]].
      assert (E : existsb (fun r => bytes_eqb l (braces r)) from_op = true).
      { apply existsb_exists. exists r. split; [exact Hr | apply bytes_eqb_eq; exact Heq]. }
      rewrite E. reflexivity.
    + intros q Hq. assert (E : existsb (fun r => bytes_eqb (braces q) r) from_path = true).
      { apply existsb_exists. exists (braces q). split; [apply H2; exact Hq | apply bytes_eqb_refl]. }
      rewrite E. reflexivity.
Qed.

(* ------------------------------------------------------------------ one operation (spec.go:672-771) *)

Definition mparam := (str * str * bool * bytes)%type.
Definition mp_in (p : mparam) : str := snd (fst (fst p)).
Definition mp_required (p : mparam) : bool := snd (fst p).
Definition mp_name (p : mparam) : bytes := snd p.

Definition op_bodies (o : aop) : list mparam := filter (fun p : mparam => Z.eqb (mp_in p) k_body) (ao_merged o).
Definition op_has_form (o : aop) : bool := existsb (fun p : mparam => Z.eqb (mp_in p) k_formdata) (ao_merged o).
Definition op_path_params (o : aop) : list mparam := filter (fun p : mparam => Z.eqb (mp_in p) k_path) (ao_merged o).
Definition op_placeholders (o : aop) : list bytes := extract_path_params (ao_path o).

(* the documented rules about one operation *)
Record op_ok (o : aop) : Prop := {
  ok_unique : NoDup (filter named_param (ao_declared o));                       (* unique name + location *)
  ok_required : forall p, In p (op_path_params o) -> mp_required p = true;      (* path parameters are required *)
  ok_one_body : (length (op_bodies o) <= 1)%nat;                                (* at most one body parameter *)
  ok_body_xor_form : op_bodies o <> [] -> op_has_form o = false;                (* never together with form data *)
  ok_placeholders : NoDup (op_placeholders o);                                  (* a placeholder appears once *)
  ok_declared : forall l, In l (op_placeholders o) ->
                exists p, In p (op_path_params o) /\ l = braces (mp_name p);    (* every placeholder is declared *)
  ok_in_template : forall p, In p (op_path_params o) -> In (braces (mp_name p)) (op_placeholders o);  (* and conversely *)
}.

Lemma app_nil2 {A : Type} (x y : list A) : x ++ y = [] <-> x = [] /\ y = [].
Proof. split; [apply app_eq_nil | intros [-> ->]; reflexivity]. Qed.

Lemma rule_operation_unfold (o : aop) :
  rule_operation o =
  unique_params (ao_opid o) (ao_declared o) [] ++
  flat_map (fun p : mparam => if mp_required p then [] else [(R_PATH_PARAM_NOT_REQUIRED, [ao_opid o; fst (fst (fst p))])]) (op_path_params o) ++
  (match op_bodies o with _ :: _ => if op_has_form o then [(R_BODY_AND_FORM, [ao_opid o])] else [] | [] => [] end) ++
  (if (1 <? Z.of_nat (length (op_bodies o))) then [(R_MULTI_BODY, [ao_opid o])] else []) ++
  dup_placeholders (ao_path o) [] (op_placeholders o) ++
  path_param_presence (ao_path o) (op_placeholders o) (map mp_name (op_path_params o)).
Proof. reflexivity. Qed.

Theorem rule_operation_exact (o : aop) : rule_operation o = [] <-> op_ok o.
Proof.
  rewrite rule_operation_unfold. rewrite !app_nil2.
  rewrite unique_params_exact, dup_placeholders_exact, path_param_presence_exact, flat_map_nil.
  split.
  - intros [Hu [Hr [Hbf [Hmb [Hd [Hp1 Hp2]]]]]]. constructor.
    + exact Hu.
    + intros p Hp. specialize (Hr p Hp). destruct (mp_required p); [reflexivity | discriminate].
    + apply cond_nil in Hmb. apply Z.ltb_ge in Hmb. lia.
    + intros Hne. destruct (op_bodies o) as [|b bs]; [congruence|]. destruct (op_has_form o); [discriminate | reflexivity].
    + exact Hd.
    + intros l Hl. destruct (Hp1 l Hl) as [r [Hr' Heq]]. apply in_map_iff in Hr'. destruct Hr' as [p [Hpn Hp]].
      exists p. subst r. split; assumption.
    + intros p Hp. apply Hp2. apply in_map. exact Hp.
  - intros [Hu Hr Hob Hbf Hd Hdecl Htpl]. repeat split.
    + exact Hu.
    + intros p Hp. rewrite (Hr p Hp). reflexivity.
    + destruct (op_bodies o) as [|b bs] eqn:Eb; [reflexivity|]. rewrite Hbf; [reflexivity | discriminate].
    + apply cond_nil. apply Z.ltb_ge. lia.
    + exact Hd.
    + intros l Hl. destruct (Hdecl l Hl) as [p [Hp Heq]]. exists (mp_name p). split; [apply in_map; exact Hp | exact Heq].
    + intros r Hr'. apply in_map_iff in Hr'. destruct Hr' as [p [Hpn Hp]]. subst r. apply Htpl. exact Hp.
Qed.

(* ------------------------------------------------------------------ overlapping paths (spec.go:646-670) *)

Definition op_key (o : aop) : str * bytes := (ao_method o, strip_params (ao_path o)).

Lemma key_seen (m : str) (k : bytes) (seen : list (str * bytes)) :
  existsb (fun s => Z.eqb (fst s) m && bytes_eqb (snd s) k) seen = true <-> In (m, k) seen.
Proof.
  rewrite existsb_exists. split.
  - intros [[m' k'] [Hin H]]. simpl in H. apply andb_true_iff in H. destruct H as [H1 H2].
    apply Z.eqb_eq in H1. apply bytes_eqb_eq in H2. subst. exact Hin.
  - intros H. exists (m, k). simpl. rewrite Z.eqb_refl, bytes_eqb_refl. split; [exact H | reflexivity].
Qed.

Lemma overlaps_gen (ops : list aop) (seen : list (str * bytes)) :
  overlaps ops seen = [] <-> NoDup (map op_key ops) /\ (forall o, In o ops -> ~ In (op_key o) seen).
Proof.
  revert seen; induction ops as [|o t IH]; intros seen; cbn [overlaps map].
  - split; [intros _; split; [constructor | intros p Hp; destruct Hp] | reflexivity].
  - destruct (existsb (fun s => Z.eqb (fst s) (ao_method o) && bytes_eqb (snd s) (strip_params (ao_path o))) seen) eqn:E.
    + split; [discriminate|]. intros [_ Hns]. exfalso. apply key_seen in E. apply (Hns o); [left; reflexivity | exact E].
    + assert (Hnot : ~ In (op_key o) seen). { intros Hin. apply key_seen in Hin. unfold op_key in Hin. congruence. }
      rewrite IH. split.
      * intros [Hnd Hns]. split.
        -- constructor; [|exact Hnd]. intros Hin. apply in_map_iff in Hin. destruct Hin as [o' [Hk Ho']].
           apply (Hns o' Ho'). left. unfold op_key in Hk |- *. symmetry. exact Hk.
        -- intros o' [Ho' | Ho']; [subst; exact Hnot|]. intros Hin. apply (Hns o' Ho'). right; exact Hin.
      * intros [Hnd Hns]. inversion Hnd as [|x l Hx Hnd']; subst. split; [exact Hnd'|].
        intros o' Ho' [Heq | Hin].
        -- apply Hx. apply in_map_iff. exists o'. split; [symmetry; exact Heq | exact Ho'].
        -- apply (Hns o'); [right; exact Ho' | exact Hin].
Qed.

(* no two operations of one method have paths that differ only in the names of their placeholders *)
Theorem overlaps_exact (ops : list aop) : overlaps ops [] = [] <-> NoDup (map op_key ops).
Proof.
  rewrite overlaps_gen. split; [intros [H _]; exact H | intros H; split; [exact H | intros p _ Hin; destruct Hin]].
Qed.

Definition params_ok (strict : bool) (a : aspec) : Prop :=
  (strict = true -> NoDup (map op_key (as_ops a))) /\ (forall o, In o (as_ops a) -> op_ok o).

Theorem rule_parameters_exact (strict : bool) (a : aspec) : rule_parameters strict a = [] <-> params_ok strict a.
Proof.
  unfold rule_parameters, params_ok. rewrite app_nil2, flat_map_nil. split.
  - intros [Ho Hops]. split.
    + intros ->. apply overlaps_exact. exact Ho.
    + intros o Hin. apply rule_operation_exact. apply Hops. exact Hin.
  - intros [Ho Hops]. split.
    + destruct strict; [apply overlaps_exact; apply Ho; reflexivity | reflexivity].
    + intros o Hin. apply rule_operation_exact. apply Hops. exact Hin.
Qed.

(* ------------------------------------------------------------------ required must be defined (spec.go:554-629) *)

Section Req.
Variable RO : roracle.

(* a required name is defined by a schema: through its properties, through a (valid) pattern, through
   additionalProperties: true, or by the schema under additionalProperties; every pattern met on the way is valid *)
Fixpoint defined (name : str) (s : sreq) : Prop :=
  match s with
  | SReq props pats ap =>
      (forall pp, In pp pats -> ro_ok RO pp = true) /\
      (In name props \/
       (exists pp, In pp pats /\ ro_ok RO pp = true /\ ro_match RO pp name = true) \/
       match ap with
       | Some (true, None) => True
       | Some (_, Some s') => defined name s'
       | _ => False
       end)
  end.

Lemma required_property_snd (name defn : str) (s : sreq) :
  snd (required_property RO name defn s) = is_nil (fst (required_property RO name defn s)).
Proof.
  destruct s as [props pats ap]. cbn [required_property].
  destruct (if existsb (Z.eqb name) props || existsb (fun pp => ro_ok RO pp && ro_match RO pp name) pats
            then ([], false)
            else match ap with
                 | Some (true, None) => ([], true)
                 | Some (_, Some s') => let '(e, ok) := required_property RO name defn s' in (e, ok)
                 | _ => ([], false)
                 end) as [nested ap_match].
  cbn [fst snd]. destruct (_ ++ _); reflexivity.
Qed.

Lemma memZ_in (x : Z) (l : list Z) : existsb (Z.eqb x) l = true <-> In x l.
Proof.
  rewrite existsb_exists. split.
  - intros [y [Hy H]]. apply Z.eqb_eq in H. subst; exact Hy.
  - intros H. exists x. split; [exact H | apply Z.eqb_refl].
Qed.

Lemma pattern_match_iff (name : str) (pats : list str) :
  existsb (fun pp => ro_ok RO pp && ro_match RO pp name) pats = true <->
  exists pp, In pp pats /\ ro_ok RO pp = true /\ ro_match RO pp name = true.
Proof.
  rewrite existsb_exists. split.
  - intros [pp [Hin H]]. apply andb_true_iff in H. exists pp. tauto.
  - intros [pp [Hin [H1 H2]]]. exists pp. rewrite H1, H2. tauto.
Qed.

Lemma bad_patterns_nil (defn : str) (pats : list str) :
  flat_map (fun pp => if ro_ok RO pp then [] else [(R_BAD_PATTERN, [pp; defn])]) pats = [] <->
  forall pp, In pp pats -> ro_ok RO pp = true.
Proof.
  rewrite flat_map_nil. split; intros H pp Hpp; specialize (H pp Hpp).
  - destruct (ro_ok RO pp); [reflexivity | discriminate].
  - rewrite H; reflexivity.
Qed.

Theorem required_property_exact (name defn : str) : forall s : sreq,
  fst (required_property RO name defn s) = [] <-> defined name s.
Proof.
  fix IH 1. intros s. destruct s as [props pats ap]. cbn [required_property defined].
  destruct (existsb (Z.eqb name) props) eqn:Ep.
  - cbn [orb fst]. rewrite app_nil_l, app_nil_r. rewrite bad_patterns_nil.
    apply memZ_in in Ep. tauto.
  - destruct (existsb (fun pp => ro_ok RO pp && ro_match RO pp name) pats) eqn:Em.
    + cbn [orb fst]. rewrite app_nil_l, app_nil_r. rewrite bad_patterns_nil.
      apply pattern_match_iff in Em. tauto.
    + assert (Hnp : ~ In name props). { intros H. apply memZ_in in H. congruence. }
      assert (Hnm : ~ exists pp, In pp pats /\ ro_ok RO pp = true /\ ro_match RO pp name = true).
      { intros H. apply pattern_match_iff in H. congruence. }
      cbn [orb].
      destruct ap as [[b [s'|]]|].
      * pose proof (IH s') as IHs. pose proof (required_property_snd name defn s') as Hsnd.
        destruct (required_property RO name defn s') as [e ok]. cbn [fst snd] in IHs, Hsnd.
        assert (Hb : (if b then (e, ok) else (e, ok)) = (e, ok)) by (destruct b; reflexivity).
        destruct b; cbn [fst]; rewrite !app_nil2, bad_patterns_nil; subst ok.
        -- destruct e as [|x e]; cbn [is_nil orb].
           ++ split; [intros [Hp _]; split; [exact Hp | right; right; apply IHs; reflexivity] | intros [Hp _]; repeat split; exact Hp].
           ++ split; [intros [_ [H _]]; discriminate | intros [_ [H | [H | H]]]; [contradiction | contradiction | apply IHs in H; discriminate]].
        -- destruct e as [|x e]; cbn [is_nil orb].
           ++ split; [intros [Hp _]; split; [exact Hp | right; right; apply IHs; reflexivity] | intros [Hp _]; repeat split; exact Hp].
           ++ split; [intros [_ [H _]]; discriminate | intros [_ [H | [H | H]]]; [contradiction | contradiction | apply IHs in H; discriminate]].
      * destruct b; cbn [fst orb]; rewrite !app_nil2, bad_patterns_nil.
        -- split; [intros [Hp _]; split; [exact Hp | right; right; exact I] | intros [Hp _]; repeat split; exact Hp].
        -- split; [intros [_ [_ H]]; discriminate | intros [_ [H | [H | H]]]; contradiction].
      * cbn [fst orb]. rewrite !app_nil2, bad_patterns_nil. split; [intros [_ [_ H]]; discriminate | intros [_ [H | [H | H]]]; contradiction].
Qed.

Definition def_ok (d : adef) : Prop := forall n, In n (ad_required d) -> defined n (ad_schema d).

Lemma required_property_verdict (name defn : str) (s : sreq) :
  snd (required_property RO name defn s) = true <-> defined name s.
Proof. rewrite required_property_snd, is_nil_true. apply required_property_exact. Qed.

(* continue-on-errors: every name is looked at *)
Lemma required_names_cont (defn : str) (s : sreq) (names : list str) :
  snd (required_names RO true defn s names) = false /\
  (fst (required_names RO true defn s names) = [] <-> forall n, In n names -> defined n s).
Proof.
  induction names as [|n t [IH1 IH2]]; cbn [required_names].
  - split; [reflexivity|]. cbn [fst]. split; [intros _ n Hn; destruct Hn | reflexivity].
  - pose proof (required_property_exact n defn s) as Hx. pose proof (required_property_snd n defn s) as Hs.
    destruct (required_property RO n defn s) as [e ok]. cbn [fst snd] in Hx, Hs.
    rewrite andb_false_r. destruct (required_names RO true defn s t) as [e' st]. cbn [fst snd] in *.
    split; [exact IH1|]. rewrite app_nil2, Hx, IH2. split.
    + intros [H1 H2] m [Hm | Hm]; [subst; exact H1 | apply H2; exact Hm].
    + intros H. split; [apply H; left; reflexivity | intros m Hm; apply H; right; exact Hm].
Qed.

(* early stop: the errors are a prefix of those of continue-on-errors, and empty in the same cases *)
Lemma required_names_unstopped (defn : str) (s : sreq) (names : list str) :
  snd (required_names RO false defn s names) = false ->
  fst (required_names RO true defn s names) = fst (required_names RO false defn s names).
Proof.
  induction names as [|n t IH]; cbn [required_names]; [reflexivity|].
  pose proof (required_property_snd n defn s) as Hs.
  destruct (required_property RO n defn s) as [e ok]. cbn [fst snd] in Hs.
  rewrite andb_false_r, andb_true_r.
  destruct (required_names RO true defn s t) as [e1 st1]. destruct (required_names RO false defn s t) as [e0 st0].
  cbn [fst snd] in *. destruct ok; cbn [negb fst snd].
  - intros H. rewrite (IH H). reflexivity.
  - discriminate.
Qed.

Lemma required_names_stop (defn : str) (s : sreq) (names : list str) :
  (exists rest, fst (required_names RO true defn s names) = fst (required_names RO false defn s names) ++ rest) /\
  (snd (required_names RO false defn s names) = true -> fst (required_names RO false defn s names) <> []) /\
  (fst (required_names RO false defn s names) = [] <-> forall n, In n names -> defined n s).
Proof.
  induction names as [|n t [[rest IH1] [IH2 IH3]]]; cbn [required_names].
  - cbn [fst snd]. split; [exists []; reflexivity|]. split; [discriminate|]. split; [intros _ n Hn; destruct Hn | reflexivity].
  - pose proof (required_property_exact n defn s) as Hx. pose proof (required_property_snd n defn s) as Hs.
    destruct (required_property RO n defn s) as [e ok]. cbn [fst snd] in Hx, Hs.
    rewrite andb_false_r, andb_true_r.
    destruct (required_names RO true defn s t) as [e1 st1]. destruct (required_names RO false defn s t) as [e0 st0].
    cbn [fst snd] in *. destruct ok; cbn [negb].
    + symmetry in Hs. apply is_nil_true in Hs. subst e. cbn [fst snd app]. split; [exists rest; exact IH1|]. split; [exact IH2|].
      rewrite IH3. split.
      * intros H m [Hm | Hm]; [subst; apply Hx; reflexivity | apply H; exact Hm].
      * intros H m Hm. apply H. right; exact Hm.
    + cbn [fst snd]. split; [exists e1; reflexivity|].
      assert (Hne : e <> []). { intros ->. discriminate. }
      split; [intros _; exact Hne|]. split; [intros H; contradiction|].
      intros H. exfalso. apply Hne. apply Hx. apply H. left; reflexivity.
Qed.

Theorem rule_required_cont_exact (defs : list adef) :
  rule_required RO true defs = [] <-> forall d, In d defs -> def_ok d.
Proof.
  induction defs as [|d t IH]; cbn [rule_required].
  - split; [intros _ d Hd; destruct Hd | reflexivity].
  - destruct (required_names_cont (ad_name d) (ad_schema d) (ad_required d)) as [H1 H2].
    destruct (required_names RO true (ad_name d) (ad_schema d) (ad_required d)) as [e st]. cbn [fst snd] in *. subst st.
    rewrite app_nil2, H2, IH. unfold def_ok. split.
    + intros [Ha Hb] d' [Hd | Hd]; [subst; exact Ha | apply Hb; exact Hd].
    + intros H. split; [apply H; left; reflexivity | intros d' Hd; apply H; right; exact Hd].
Qed.

Theorem rule_required_stop_prefix (defs : list adef) :
  exists rest, rule_required RO true defs = rule_required RO false defs ++ rest.
Proof.
  induction defs as [|d t [rest IH]]; cbn [rule_required].
  - exists []; reflexivity.
  - destruct (required_names_cont (ad_name d) (ad_schema d) (ad_required d)) as [H1 _].
    destruct (required_names_stop (ad_name d) (ad_schema d) (ad_required d)) as [[r1 Hp] _].
    pose proof (required_names_unstopped (ad_name d) (ad_schema d) (ad_required d)) as Hu.
    destruct (required_names RO true (ad_name d) (ad_schema d) (ad_required d)) as [e1 st1].
    destruct (required_names RO false (ad_name d) (ad_schema d) (ad_required d)) as [e0 st0]. cbn [fst snd] in *. subst st1.
    destruct st0.
    + exists (r1 ++ rule_required RO true t). rewrite Hp, app_assoc. reflexivity.
    + rewrite (Hu eq_refl). exists rest. rewrite IH, app_assoc. reflexivity.
Qed.

Theorem rule_required_stop_exact (defs : list adef) :
  rule_required RO false defs = [] <-> forall d, In d defs -> def_ok d.
Proof.
  induction defs as [|d t IH]; cbn [rule_required].
  - split; [intros _ d Hd; destruct Hd | reflexivity].
  - destruct (required_names_stop (ad_name d) (ad_schema d) (ad_required d)) as [_ [H2 H3]].
    destruct (required_names RO false (ad_name d) (ad_schema d) (ad_required d)) as [e st]. cbn [fst snd] in *.
    destruct st.
    + split.
      * intros ->. exfalso. apply H2; reflexivity.
      * intros H. apply H3. apply H. left; reflexivity.
    + rewrite app_nil2, H3, IH. unfold def_ok. split.
      * intros [Ha Hb] d' [Hd | Hd]; [subst; exact Ha | apply Hb; exact Hd].
      * intros H. split; [apply H; left; reflexivity | intros d' Hd; apply H; right; exact Hd].
Qed.

Theorem rule_required_exact (cont : bool) (defs : list adef) :
  rule_required RO cont defs = [] <-> forall d, In d defs -> def_ok d.
Proof. destruct cont; [apply rule_required_cont_exact | apply rule_required_stop_exact]. Qed.

(* ------------------------------------------------------------------ the paths object (spec.go:164-187) *)

Lemma contains_empty_placeholder_iff (s : bytes) :
  contains_empty_placeholder s = true <-> exists a b, s = a ++ [LBRACE; RBRACE] ++ b.
Proof.
  induction s as [|x t IH].
  - simpl. split; [discriminate | intros [a [b H]]; destruct a; discriminate].
  - destruct t as [|y t'].
    + simpl. split; [discriminate|]. intros [a [b H]]. destruct a as [|? [|? ?]]; discriminate.
    + cbn [contains_empty_placeholder]. rewrite orb_true_iff, andb_true_iff, !Z.eqb_eq, IH. split.
      * intros [[-> ->] | [a [b H]]]; [exists [], t'; reflexivity | exists (x :: a), b; rewrite H; reflexivity].
      * intros [a [b H]]. destruct a as [|a0 a].
        -- left. inversion H as [[H1 H2 H3]]. split; reflexivity.
        -- right. exists a, b. inversion H as [[H1 H2]]. exact H2.
Qed.

Definition paths_ok (a : aspec) : Prop :=
  as_paths_nil a = false /\ (as_paths_empty a = false -> forall k, In k (as_paths a) -> ~ exists x y, k = x ++ [LBRACE; RBRACE] ++ y).

Theorem rule_paths_exact (a : aspec) : rule_paths a = [] <-> paths_ok a.
Proof.
  unfold rule_paths, paths_ok. destruct (as_paths_nil a).
  - split; [discriminate | intros [H _]; discriminate].
  - destruct (as_paths_empty a).
    + split; [intros _; split; [reflexivity | discriminate] | reflexivity].
    + rewrite flat_map_nil. split.
      * intros H. split; [reflexivity|]. intros _ k Hk Hex. specialize (H k Hk).
        apply contains_empty_placeholder_iff in Hex. rewrite Hex in H. discriminate.
      * intros [_ H] k Hk. destruct (contains_empty_placeholder k) eqn:E; [|reflexivity].
        exfalso. apply (H eq_refl k Hk). apply contains_empty_placeholder_iff. exact E.
Qed.

(* ------------------------------------------------------------------ all the modelled rules together *)

Definition spec_ok (strict : bool) (a : aspec) : Prop :=
  NoDup (named_ids a) /\ params_ok strict a /\ (forall d, In d (as_defs a) -> def_ok d) /\ paths_ok a.

(* no error exactly when every rule holds, whatever the continue-on-errors setting *)
Theorem all_rules_exact (cont strict : bool) (a : aspec) : all_rules RO cont strict a = [] <-> spec_ok strict a.
Proof.
  unfold all_rules, spec_ok.
  set (group := rule_opids a ++ rule_parameters strict a ++ rule_required RO cont (as_defs a)).
  assert (Hg : group = [] <-> NoDup (named_ids a) /\ params_ok strict a /\ (forall d, In d (as_defs a) -> def_ok d)).
  { unfold group. rewrite !app_nil2, rule_opids_exact, rule_parameters_exact, rule_required_exact. reflexivity. }
  destruct (negb cont && negb (is_nil group)) eqn:E.
  - apply andb_true_iff in E. destruct E as [_ E]. apply negb_true_iff in E.
    assert (Hne : group <> []). { intros H. apply is_nil_true in H. congruence. }
    split; [intros H; contradiction|]. intros [H1 [H2 [H3 _]]]. exfalso. apply Hne. apply Hg. split; [exact H1 | split; [exact H2 | exact H3]].
  - rewrite app_nil2, Hg, rule_paths_exact. tauto.
Qed.

(* the early stop only drops errors: what it reports is reported with continue-on-errors too *)
Theorem early_stop_reports_less (strict : bool) (a : aspec) :
  incl (all_rules RO false strict a) (all_rules RO true strict a).
Proof.
  unfold all_rules. destruct (rule_required_stop_prefix (as_defs a)) as [rest Hp].
  cbn [negb andb]. rewrite Hp.
  destruct (is_nil (rule_opids a ++ rule_parameters strict a ++ rule_required RO false (as_defs a))); cbn [negb].
  - intros x Hx. rewrite !in_app_iff in *. tauto.
  - intros x Hx. rewrite !in_app_iff in *. tauto.
Qed.

End Req.

(* ------------------------------------------------------------------ placeholders of a path segment (helpers.go:122-158) *)

Definition no_brace (m : bytes) : Prop := forall c, In c m -> c <> LBRACE /\ c <> RBRACE.
Definition no_lbrace (m : bytes) : Prop := forall c, In c m -> c <> LBRACE.

Lemma no_brace_cons c m : no_brace (c :: m) <-> (c <> LBRACE /\ c <> RBRACE) /\ no_brace m.
Proof.
  unfold no_brace. split.
  - intros H. split; [apply H; left; reflexivity | intros d Hd; apply H; right; exact Hd].
  - intros [H1 H2] d [Hd | Hd]; [subst; exact H1 | apply H2; exact Hd].
Qed.

Lemma scan_body_sound (rest acc m r : bytes) :
  scan_body rest acc = Some (m, r) ->
  exists body, m = acc ++ body /\ rest = body ++ RBRACE :: r /\ no_brace body /\ m <> [].
Proof.
  revert acc; induction rest as [|c t IH]; intros acc; cbn [scan_body]; [discriminate|].
  destruct (Z.eqb_spec c RBRACE) as [e|ne].
  - destruct acc as [|a0 acc'] eqn:Ea; [discriminate|]. intros H. inversion H; subst. exists [].
    rewrite app_nil_r. split; [reflexivity|]. split; [reflexivity|]. split; [intros d Hd; destruct Hd | discriminate].
  - destruct (Z.eqb_spec c LBRACE) as [e|nl]; [discriminate|]. intros H. apply IH in H.
    destruct H as [body [Hm [Hr [Hnb Hne]]]]. exists (c :: body). rewrite <- app_assoc in Hm. cbn [app] in Hm.
    split; [exact Hm|]. split; [rewrite Hr; reflexivity|]. split; [apply no_brace_cons; tauto | exact Hne].
Qed.

Lemma scan_body_complete (body acc r : bytes) :
  no_brace body -> acc ++ body <> [] -> scan_body (body ++ RBRACE :: r) acc = Some (acc ++ body, r).
Proof.
  revert acc; induction body as [|c t IH]; intros acc Hnb Hne; cbn [app scan_body].
  - rewrite Z.eqb_refl. rewrite app_nil_r in *. destruct acc; [congruence | reflexivity].
  - apply no_brace_cons in Hnb. destruct Hnb as [[Hl Hr] Hnb].
    destruct (Z.eqb_spec c RBRACE) as [e|_]; [contradiction|]. destruct (Z.eqb_spec c LBRACE) as [e|_]; [contradiction|].
    rewrite IH; [rewrite <- app_assoc; reflexivity | exact Hnb | rewrite <- app_assoc; exact Hne].
Qed.

(* a scan that runs into another opening brace fails, whatever follows *)
Lemma scan_body_app_lbrace (x z acc : bytes) :
  scan_body (x ++ LBRACE :: z) acc =
  match scan_body x acc with Some (m, r) => Some (m, r ++ LBRACE :: z) | None => None end.
Proof.
  revert acc; induction x as [|c t IH]; intros acc; cbn [app scan_body].
  - destruct (Z.eqb_spec LBRACE RBRACE) as [e|_]; [discriminate e|]. rewrite Z.eqb_refl. reflexivity.
  - destruct (Z.eqb c RBRACE); [destruct acc; reflexivity|]. destruct (Z.eqb c LBRACE); [reflexivity | apply IH].
Qed.

Lemma find_all_fuel : forall (f1 f2 : nat) (s : bytes),
  (length s < f1)%nat -> (length s < f2)%nat -> find_all f1 s = find_all f2 s.
Proof.
  induction f1 as [|f1 IH]; intros f2 s H1 H2; [lia|]. destruct f2 as [|f2]; [lia|].
  destruct s as [|c t]; [reflexivity|]. cbn [find_all]. cbn [length] in H1, H2.
  destruct (Z.eqb c LBRACE).
  - destruct (scan_body t []) as [[m rest]|] eqn:Es.
    + apply scan_body_sound in Es. destruct Es as [body [_ [Hr _]]].
      assert (Hl : (length rest < length t)%nat). { rewrite Hr, app_length. cbn [length]. lia. }
      f_equal. apply IH; lia.
    + apply IH; lia.
  - apply IH; lia.
Qed.

Lemma find_all_step (f : nat) (c : Z) (t : bytes) :
  find_all (S f) (c :: t) =
  if Z.eqb c LBRACE
  then match scan_body t [] with
       | Some (m, rest) => (LBRACE :: m ++ [RBRACE]) :: find_all f rest
       | None => find_all f t
       end
  else find_all f t.
Proof. reflexivity. Qed.

Definition placeholders (seg : bytes) : list bytes := find_all (S (length seg)) seg.

Lemma extract_path_params_segments (path : bytes) :
  extract_path_params path = flat_map placeholders (split_slash path []).
Proof. reflexivity. Qed.

Lemma placeholders_skip (a s : bytes) : no_lbrace a -> placeholders (a ++ s) = placeholders s.
Proof.
  induction a as [|c t IH]; intros Hn; [reflexivity|].
  assert (Hc : c <> LBRACE) by (apply Hn; left; reflexivity).
  assert (Ht : no_lbrace t) by (intros d Hd; apply Hn; right; exact Hd).
  rewrite <- (IH Ht). unfold placeholders. cbn [app]. rewrite find_all_step. destruct (Z.eqb_spec c LBRACE) as [e|_]; [contradiction|].
  apply find_all_fuel; cbn [length]; lia.
Qed.

Lemma braces_app (m b : bytes) : braces m ++ b = LBRACE :: m ++ RBRACE :: b.
Proof. unfold braces. cbn [app]. rewrite <- app_assoc. reflexivity. Qed.

Lemma placeholders_hit (m b : bytes) :
  no_brace m -> m <> [] -> placeholders (braces m ++ b) = braces m :: placeholders b.
Proof.
  intros Hnb Hne. rewrite braces_app. unfold placeholders. rewrite find_all_step. rewrite Z.eqb_refl.
  rewrite (scan_body_complete m [] b Hnb); [|exact Hne]. cbn [app]. f_equal.
  apply find_all_fuel; [cbn [length]; rewrite app_length; cbn [length]; lia | lia].
Qed.

(* two placeholders in one path segment are both found, in order *)
Theorem two_placeholders_in_one_segment (a m c n b : bytes) :
  no_lbrace a -> no_lbrace c -> no_brace m -> no_brace n -> m <> [] -> n <> [] ->
  placeholders (a ++ braces m ++ c ++ braces n ++ b) = braces m :: braces n :: placeholders b.
Proof.
  intros Ha Hc Hm Hn Hme Hne.
  rewrite (placeholders_skip a _ Ha), (placeholders_hit m _ Hm Hme), (placeholders_skip c _ Hc), (placeholders_hit n _ Hn Hne).
  reflexivity.
Qed.

(* what is extracted is always a non-empty brace-free name between braces *)
Theorem placeholders_shape : forall (fuel : nat) (s p : bytes),
  In p (find_all fuel s) -> exists m, p = braces m /\ m <> [] /\ no_brace m.
Proof.
  induction fuel as [|f IH]; intros s p Hin; [destruct Hin|]. destruct s as [|c t]; [destruct Hin|].
  cbn [find_all] in Hin. destruct (Z.eqb c LBRACE).
  - destruct (scan_body t []) as [[m rest]|] eqn:Es.
    + destruct Hin as [Hp | Hin]; [|apply (IH _ _ Hin)].
      apply scan_body_sound in Es. destruct Es as [body [Hm [_ [Hnb Hne]]]]. cbn [app] in Hm. subst body.
      exists m. split; [symmetry; exact Hp | split; assumption].
    + apply (IH _ _ Hin).
  - apply (IH _ _ Hin).
Qed.

(* ------------------------------------------------------------------ stripping the names (helpers.go:130-146) *)

Lemma replace_all_fuel : forall (f1 f2 : nat) (s : bytes),
  (length s < f1)%nat -> (length s < f2)%nat -> replace_all f1 s = replace_all f2 s.
Proof.
  induction f1 as [|f1 IH]; intros f2 s H1 H2; [lia|]. destruct f2 as [|f2]; [lia|].
  destruct s as [|c t]; [reflexivity|]. cbn [replace_all]. cbn [length] in H1, H2.
  destruct (Z.eqb c LBRACE).
  - destruct (scan_body t []) as [[m rest]|] eqn:Es.
    + apply scan_body_sound in Es. destruct Es as [body [_ [Hr _]]].
      assert (Hl : (length rest < length t)%nat). { rewrite Hr, app_length. cbn [length]. lia. }
      f_equal. apply IH; lia.
    + f_equal. apply IH; lia.
  - f_equal. apply IH; lia.
Qed.

Lemma replace_all_step (f : nat) (c : Z) (t : bytes) :
  replace_all (S f) (c :: t) =
  if Z.eqb c LBRACE
  then match scan_body t [] with
       | Some (_, rest) => 88 :: replace_all f rest
       | None => c :: replace_all f t
       end
  else c :: replace_all f t.
Proof. reflexivity. Qed.

Definition stripped (seg : bytes) : bytes := replace_all (S (length seg)) seg.

Lemma strip_params_segments (path : bytes) : strip_params path = join_slash (map stripped (split_slash path [])).
Proof. reflexivity. Qed.

(* whatever precedes it, a well-formed placeholder is replaced by one "X" and the rest is stripped independently *)
Lemma stripped_app_placeholder : forall (n : nat) (x m y : bytes),
  (length x <= n)%nat -> no_brace m -> m <> [] ->
  stripped (x ++ braces m ++ y) = stripped x ++ 88 :: stripped y.
Proof.
  induction n as [|n IH]; intros x m y Hlen Hnb Hne.
  - destruct x; [|cbn [length] in Hlen; lia]. cbn [app]. rewrite braces_app. unfold stripped.
    rewrite replace_all_step. rewrite Z.eqb_refl. rewrite (scan_body_complete m [] y Hnb); [|exact Hne].
    change (replace_all (S (length (@nil Z))) []) with (@nil Z). cbn [app].
    f_equal. apply replace_all_fuel; [cbn [length]; rewrite app_length; cbn [length]; lia | lia].
  - destruct x as [|c t].
    + apply (IH [] m y); [cbn [length]; lia | exact Hnb | exact Hne].
    + cbn [length] in Hlen. unfold stripped. cbn [app]. rewrite !replace_all_step.
      destruct (Z.eqb c LBRACE).
      * rewrite braces_app. rewrite scan_body_app_lbrace.
        destruct (scan_body t []) as [[m' rest]|] eqn:Es.
        -- pose proof Es as Es'. apply scan_body_sound in Es'. destruct Es' as [body [_ [Hr _]]].
           assert (Hl : (length rest < length t)%nat). { rewrite Hr, app_length. cbn [length]. lia. }
           rewrite <- braces_app. cbn [app]. f_equal.
           rewrite (replace_all_fuel _ (S (length (rest ++ braces m ++ y))) (rest ++ braces m ++ y));
             [| cbn [length]; rewrite !app_length in *; lia | lia].
           rewrite (replace_all_fuel (length (c :: t)) (S (length rest)) rest); [| cbn [length]; lia | lia].
           apply (IH rest m y); [lia | exact Hnb | exact Hne].
        -- rewrite <- braces_app. cbn [app]. f_equal.
           rewrite (replace_all_fuel _ (S (length (t ++ braces m ++ y))) (t ++ braces m ++ y)); [| cbn [length]; lia | lia].
           rewrite (replace_all_fuel (length (c :: t)) (S (length t)) t); [| cbn [length]; lia | lia].
           apply (IH t m y); [lia | exact Hnb | exact Hne].
      * cbn [app]. f_equal.
        rewrite (replace_all_fuel _ (S (length (t ++ braces m ++ y))) (t ++ braces m ++ y)); [| cbn [length]; lia | lia].
        rewrite (replace_all_fuel (length (c :: t)) (S (length t)) t); [| cbn [length]; lia | lia].
        apply (IH t m y); [lia | exact Hnb | exact Hne].
Qed.

(* the name inside a placeholder plays no role in the stripped form of a segment *)
Theorem stripped_ignores_names (x m n y : bytes) :
  no_brace m -> m <> [] -> no_brace n -> n <> [] ->
  stripped (x ++ braces m ++ y) = stripped (x ++ braces n ++ y).
Proof.
  intros Hm Hme Hn Hne.
  rewrite (stripped_app_placeholder (length x) x m y (le_n _) Hm Hme).
  rewrite (stripped_app_placeholder (length x) x n y (le_n _) Hn Hne). reflexivity.
Qed.

(* ------------------------------------------------------------------ whole paths: the stripped form ignores the names *)

Definition no_slash (m : bytes) : Prop := forall c, In c m -> c <> SLASH.

Lemma split_slash_cur : forall (s cur : bytes),
  split_slash s cur = match split_slash s [] with h :: r => (cur ++ h) :: r | [] => [] end.
Proof.
  induction s as [|c t IH]; intros cur; cbn [split_slash].
  - rewrite app_nil_r. reflexivity.
  - destruct (Z.eqb c SLASH).
    + rewrite app_nil_r. reflexivity.
    + rewrite (IH (cur ++ [c])), (IH ([] ++ [c])). destruct (split_slash t []) as [|h r]; [reflexivity|].
      cbn [app]. rewrite <- app_assoc. reflexivity.
Qed.

Lemma split_slash_nonempty (s cur : bytes) : split_slash s cur <> [].
Proof.
  revert cur; induction s as [|c t IH]; intros cur; cbn [split_slash]; [discriminate|].
  destruct (Z.eqb c SLASH); [discriminate | apply IH].
Qed.

Lemma split_slash_app : forall (pre s cur : bytes),
  split_slash (pre ++ s) cur = removelast (split_slash pre cur) ++ split_slash s (last (split_slash pre cur) []).
Proof.
  induction pre as [|c t IH]; intros s cur; cbn [app split_slash].
  - reflexivity.
  - destruct (Z.eqb c SLASH).
    + rewrite IH. pose proof (split_slash_nonempty t []) as Hne.
      destruct (split_slash t []) as [|h r] eqn:E; [congruence|]. reflexivity.
    + apply IH.
Qed.

Lemma split_slash_noslash : forall (x s cur : bytes), no_slash x -> split_slash (x ++ s) cur = split_slash s (cur ++ x).
Proof.
  induction x as [|c t IH]; intros s cur Hn; cbn [app split_slash].
  - rewrite app_nil_r. reflexivity.
  - destruct (Z.eqb_spec c SLASH) as [e|_]; [exfalso; apply (Hn c); [left; reflexivity | exact e]|].
    rewrite IH; [|intros d Hd; apply Hn; right; exact Hd]. rewrite <- app_assoc. reflexivity.
Qed.

Lemma no_slash_braces (m : bytes) : no_slash m -> no_slash (braces m).
Proof.
  intros H c [Hc | Hc]; [subst; discriminate|]. apply in_app_or in Hc. destruct Hc as [Hc | [Hc | []]]; [apply H; exact Hc | subst; discriminate].
Qed.

(* two paths that differ only in the name of one placeholder have the same stripped form: this is what "overlap" compares *)
Theorem strip_params_ignores_names (pre m n post : bytes) :
  no_brace m -> m <> [] -> no_slash m -> no_brace n -> n <> [] -> no_slash n ->
  strip_params (pre ++ braces m ++ post) = strip_params (pre ++ braces n ++ post).
Proof.
  intros Hm Hme Hms Hn Hne Hns. rewrite !strip_params_segments.
  rewrite (split_slash_app pre (braces m ++ post)), (split_slash_app pre (braces n ++ post)).
  rewrite (split_slash_noslash (braces m)), (split_slash_noslash (braces n)); try (apply no_slash_braces; assumption).
  rewrite (split_slash_cur post (_ ++ braces m)), (split_slash_cur post (_ ++ braces n)).
  pose proof (split_slash_nonempty post []) as Hp. destruct (split_slash post []) as [|h r]; [congruence|].
  rewrite !map_app. cbn [map]. rewrite <- !app_assoc.
  rewrite (stripped_ignores_names _ m n h Hm Hme Hn Hne). reflexivity.
Qed.
