(* Facts about the Swagger 2.0 schema the code embeds, re-checked on every run against the term regenerated from
   the code's dependency (Gen/Swagger20.v): it decodes into the model's schema type, all its references resolve in
   the environment shipped with it (so the documented panic cannot happen on the first pass), and the first pass is
   the first stage of the orchestration, whose errors are never dropped. *)
From Coq Require Import List ZArith Bool.
From Verif Require Import Base.Sx Base.GoVal Schema.Ast Schema.Pipeline Schema.PipelineTotal
  Result.ResultModel Result.ResultLaws Spec.Orchestration Gen.Swagger20.
Import ListNotations.
Open Scope Z_scope.

Definition sw_parts : option (env * schema) :=
  match swagger20_case with
  | L [_; _; dfs; sch; _; _; _; _] =>
      match get_env dfs, get_schema sch with
      | Some d, Some s => Some (d, s)
      | _, _ => None
      end
  | _ => None
  end.

Definition sw_env : env := match sw_parts with Some (d, _) => d | None => [] end.
Definition sw_schema : schema := match sw_parts with Some (_, s) => s | None => empty_schema end.

(* every $ref of a schema (at any depth) has a target in the environment *)
Fixpoint refs_resolve_fuel (fuel : nat) (defs : env) (s : schema) : bool :=
  match fuel with
  | O => false
  | S f =>
      let all (l : list schema) := forallb (refs_resolve_fuel f defs) l in
      let opt (o : option schema) := match o with Some x => refs_resolve_fuel f defs x | None => true end in
      (match s_ref s with Some r => match lookup_def defs r with Some _ => true | None => false end | None => true end) &&
      all (s_all_of s) && all (s_any_of s) && all (s_one_of s) && opt (s_not s) && opt (s_items_one s) &&
      (match s_items_tuple s with Some l => all l | None => true end) &&
      (match s_add_items s with Some (_, o) => opt o | None => true end) &&
      (match s_add_props s with Some (_, o) => opt o | None => true end) &&
      all (map snd (s_props s)) && all (map snd (s_pat_props s)) &&
      forallb (fun d => opt (fst (snd d))) (s_deps s)
  end.

Definition sw_closed : bool :=
  refs_resolve_fuel 40 sw_env sw_schema && forallb (fun d => refs_resolve_fuel 40 sw_env (snd d)) sw_env.

Lemma swagger20_decodes : match sw_parts with Some _ => true | None => false end = true.
Proof. vm_compute. reflexivity. Qed.

Lemma swagger20_references_resolve : sw_closed = true.
Proof. vm_compute. reflexivity. Qed.

(* the size of what was checked *)
Lemma swagger20_environment_nonempty : (0 <? Z.of_nat (length sw_env)) = true.
Proof. vm_compute. reflexivity. Qed.

(* the first pass is the first stage of Validate: whatever it reports stays in the final result, in both modes *)
Theorem first_pass_errors_are_kept cont first rest m :
  In m (errs first) -> In m (errs (fst (validate_spec cont (first :: rest)))).
Proof.
  intros H. unfold validate_spec. rewrite finish_keeps_errors. cbn [stages_from]. cbv zeta.
  assert (Hm : In m (errs (merge1 new_result first))) by (apply (proj1 (merge_no_loss new_result first m)); right; assumption).
  destruct (checkpoint_after 0 && negb cont && has_errors (Some (merge1 new_result first))); [assumption|].
  apply stages_from_keeps. assumption.
Qed.

Corollary accepted_implies_first_pass_valid cont first rest :
  errs (fst (validate_spec cont (first :: rest))) = [] -> errs first = [].
Proof.
  intros H. destruct (errs first) as [|m t] eqn:E; [reflexivity|]. exfalso.
  assert (In m (errs (fst (validate_spec cont (first :: rest))))) by (apply first_pass_errors_are_kept; rewrite E; left; reflexivity).
  rewrite H in H0. destruct H0.
Qed.
