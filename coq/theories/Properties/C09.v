(* C09 - Spec defaults and examples are judged exactly as their schema judges them.
   Over the model of the traversal (Spec/Walk.v; the places, their paths and their verdicts come from the harness, which
   judges every value with the validator of its own schema; the tie compares what Go reports with what the model
   reports, place by place).  The full statement is false of the faithful model: C09_refuted. *)
From Coq Require Import List ZArith Bool.
From Verif Require Import Base.Sx Spec.Visited Spec.Walk Spec.WalkFacts.
Import ListNotations.
Open Scope Z_scope.

(* no report for a value its schema accepts, nor for a place that does not exist *)
Theorem C09_only_rejected_values_are_reported : forall groups i,
  In i (reported groups) -> exists g n, In g groups /\ In n g /\ n_id n = i /\ rejected n = true.
Proof. exact reported_sound. Qed.
Print Assumptions C09_only_rejected_values_are_reported.

(* every rejected value is reported, at every depth, when the heuristic is silent on the paths of the group and no
   path is built twice *)
Theorem C09_every_rejected_value_is_reported_partial : forall groups,
  (forall g, In g groups -> group_regular g) ->
  reported groups = flat_map (fun g => map n_id (filter rejected g)) groups.
Proof. exact reported_complete. Qed.
Print Assumptions C09_every_rejected_value_is_reported_partial.

(* the heuristic is silent on a path exactly when no dotted tail of it repeats the end of what precedes it *)
Theorem C09_when_the_heuristic_fires : forall path n, (n <= length path)%nat ->
  (overlap_scan path n = true <->
   exists i, (i < n)%nat /\ nth i path 0 = DOT /\ has_suffix (firstn i path) (skipn (S i) path) = true).
Proof. exact overlap_scan_spec. Qed.
Print Assumptions C09_when_the_heuristic_fires.

(* the unrestricted statement is false: a rejected value that is not reported (property a of definition a) *)
Theorem C09_refuted :
  exists groups i g n, In g groups /\ In n g /\ n_id n = i /\ rejected n = true /\ ~ In i (reported groups).
Proof. exact rejected_value_not_reported. Qed.
Print Assumptions C09_refuted.

(* non-vacuity of the hypothesis of the partial theorem: a definition "b" with members "a" (rejected) and "c" *)
Definition defs_b : list node :=
  [ {| n_id := 0; n_path := [100;46;98]; n_judged := 0; n_size := 2; n_walked := true |};
    {| n_id := 1; n_path := [100;46;98;46;97]; n_judged := 2; n_size := 0; n_walked := true |};
    {| n_id := 2; n_path := [100;46;98;46;99]; n_judged := 1; n_size := 0; n_walked := true |} ].
Example C09_regular_group_exists : group_regular defs_b /\ reported [defs_b] = [1].
Proof.
  split; [|reflexivity]. split.
  - intros n [H | [H | [H | []]]]; subst; intros _; reflexivity.
  - unfold walked_paths, defs_b. cbn. repeat constructor; cbn; intuition discriminate.
Qed.
