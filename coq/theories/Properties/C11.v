(* C11 - A panic during one validation does not corrupt later validations. *)
From Coq Require Import List Arith ZArith Bool.
From Verif Require Import Life.PoolGeneric Life.Protocol.
Import ListNotations.

(* For every validator tree and every abort point k (the k-th invocation of caller-supplied code panics; the
   deferred functions of every active Validate run innermost first), every validator object is redeemed exactly
   once: no object sits twice in its pool, none is leaked. *)
Theorem C11_abort_keeps_redeem_once : forall t k q,
  In q (nodes [] t) -> count (is_redeem q) (fst (run [] t k)) = 1.
Proof. exact every_validator_redeemed_once. Qed.
Print Assumptions C11_abort_keeps_redeem_once.

Theorem C11_subtrees_too :
  (forall t p k q, In q (nodes p t) ->
     count (is_redeem q) (relinquish p t) = 1 /\ count (is_redeem q) (fst (run p t k)) = 1) /\
  (forall f p i k q, In q (nodes_f p i f) ->
     count (is_redeem q) (relinquish_f p i f) = 1 /\ count (is_redeem q) (fst (run_f p i f k)) = 1).
Proof. exact redeemed_exactly_once. Qed.
Print Assumptions C11_subtrees_too.

(* later validations are then unaffected: a pool that holds every object at most once and no borrowed object is
   the starting point of the generic theorem, which holds for every initial pool content *)
Theorem C11_later_validations_unaffected : forall P n,
  disciplined (f_trace (f_run P n)) = true ->
  forall ch n0 garbage, p_outs (p_run P ch n0 garbage n) = f_outs (f_run P n).
Proof. intros P n H ch n0 g. exact (proj1 (proj2 (proj2 (pool_noninterference P n H ch n0 g)))). Qed.
Print Assumptions C11_later_validations_unaffected.

(* non-vacuity: an abort in the middle of a nested tree *)
Example C11_example :
  let t := Node true false (FCons (Node true false (FCons (Node true true FNil) (FCons (Node true false FNil) FNil)))
                           (FCons (Node false false (FCons (Node true false FNil) FNil)) FNil)) in
  map (fun q => count (is_redeem q) (fst (run [] t 1))) (nodes [] t) = [1; 1; 1; 1; 1; 1] /\ snd (run [] t 1) = None.
Proof. exact abort_example. Qed.
