(* C07 - Spec validation never panics on a document that loads (partial: the nil-result sites of the default and
   example validators; panics inside loads / analysis / spec are outside the model). *)
From Coq Require Import List ZArith Bool.
From Verif Require Import Spec.Visited.
Import ListNotations.
Open Scope Z_scope.

(* the site that consumes the walk of a body parameter's schema (path = the caller-chosen parameter name) tolerates
   the nil result the visited-path heuristic can produce *)
Theorem C07_parameter_site_tolerates_nil : forall red, handle_guarded red <> HNilDeref.
Proof. exact guarded_site_never_panics. Qed.
Print Assumptions C07_parameter_site_tolerates_nil.

(* the remaining unguarded site (response schemas: path = "default" or a status code) cannot receive nil: paths
   without dots are never taken for visited ones *)
Theorem C07_response_site_cannot_receive_nil : forall path r,
  (forall b, In b path -> b <> DOT) -> handle_unguarded (walk_result true path [] r) <> HNilDeref.
Proof. exact response_site_never_panics. Qed.
Print Assumptions C07_response_site_cannot_receive_nil.

Theorem C07_heuristic_needs_a_dot : forall path visited,
  (forall b, In b path -> b <> DOT) -> is_visited path visited = existsb (bytes_eqb path) visited.
Proof. exact no_dot_not_falsely_visited. Qed.
Print Assumptions C07_heuristic_needs_a_dot.

(* the repaired defect, on the model: with the unguarded handling a body parameter named "a.a" dereferences nil *)
Theorem C07_refuted_before_repair : handle_unguarded (walk_result true [97;46;97] [] (false, true)) = HNilDeref.
Proof. exact parameter_named_a_dot_a. Qed.
Print Assumptions C07_refuted_before_repair.
