(* C18 - Applying defaults fills exactly the absent members that have a default. *)
From Coq Require Import List ZArith Bool.
From Verif Require Import Base.Sx Base.GoVal Schema.Ast Schema.Pipeline Schema.Post Schema.PostFacts Schema.PostTree.
Import ListNotations.
Open Scope Z_scope.

(* a member is added to an object exactly when it was absent and a schema recorded for (object, member) declares a
   default; the value is the first such default *)
Theorem C18_added_exactly : forall r obj m f v,
  In (f, v) (added_members r obj m) <->
  In f (recorded_fields r obj) /\ has_member m f = false /\ first_default (field_schemata r obj f) = Some v.
Proof. exact added_members_spec. Qed.
Print Assumptions C18_added_exactly.

(* ... it is a default declared by one of those schemas, and it is added once *)
Theorem C18_value_is_a_declared_default : forall l v, first_default l = Some v -> In (Some v) l.
Proof. exact first_default_In. Qed.
Print Assumptions C18_value_is_a_declared_default.

Theorem C18_added_once : forall r obj m, NoDup (map fst (added_members r obj m)).
Proof. exact added_members_keys_NoDup. Qed.
Print Assumptions C18_added_once.

(* members that were present keep their key and value; no other member appears *)
Theorem C18_present_kept_nothing_else : forall r id m,
  exists m', apply_defaults r (VObj id m) = VObj id (m' ++ added_members r id m) /\
             map fst m' = map fst m /\
             (forall k v, In (k, v) m -> is_container v = false -> In (k, v) m').
Proof. exact apply_defaults_object. Qed.
Print Assumptions C18_present_kept_nothing_else.

(* the (object, member) bookkeeping survives every merge variant on the way up the validator tree *)
Theorem C18_schemata_survive_merge : forall r o e,
  In e (r_fields r) \/ (exists x, o = Some x /\ In e (r_fields x)) -> In e (r_fields (merge r o)).
Proof. exact merge_fields. Qed.
Print Assumptions C18_schemata_survive_merge.

Theorem C18_schemata_survive_merge_for_field : forall r obj k o e,
  In e (r_fields r) \/ In e (r_fields o) \/ (r_root o <> [] /\ e = (obj, k, r_root o)) ->
  In e (r_fields (merge_for_field r obj k o)).
Proof. exact merge_for_field_fields. Qed.
Print Assumptions C18_schemata_survive_merge_for_field.

Theorem C18_schemata_survive_merge_for_slice : forall r sl i o e,
  In e (r_fields r) \/ In e (r_fields o) -> In e (r_fields (merge_for_slice r sl i o)).
Proof. exact merge_for_slice_fields. Qed.
Print Assumptions C18_schemata_survive_merge_for_slice.

(* the same holds at every nesting level, with no bound on depth (the fuel of the model is never the reason for an
   answer): every object of the instance gets exactly its added members, every present member is processed in turn *)
Theorem C18_defaults_at_every_level : forall r id m,
  apply_defaults r (VObj id m) =
  VObj id (map (fun kv => (fst kv, apply_defaults r (snd kv))) m ++ added_members r id m).
Proof. exact apply_defaults_obj_eq. Qed.
Print Assumptions C18_defaults_at_every_level.

Theorem C18_defaults_array_elementwise : forall r sl l,
  apply_defaults r (VArr sl l) = VArr sl (map (apply_defaults r) l).
Proof. exact apply_defaults_arr_eq. Qed.
Print Assumptions C18_defaults_array_elementwise.

Theorem C18_defaults_leave_scalars : forall r v, is_container v = false -> apply_defaults r v = v.
Proof. exact apply_defaults_scalar_eq. Qed.
Print Assumptions C18_defaults_leave_scalars.

(* nothing present is removed, renamed, reordered or overwritten anywhere in the tree: the instance is the result
   with appended members taken away *)
Theorem C18_defaults_only_append_members : forall r d, ext_keys d (apply_defaults r d).
Proof. exact apply_defaults_ext_keys. Qed.
Print Assumptions C18_defaults_only_append_members.

(* non-vacuity: a nested instance in which the inner object gets the one absent member that has a default, after the
   members it had; the outer object and the members present are untouched *)
Definition c18_res : res := mkRes [] 0 [] [(1, 10, [None]); (2, 20, [Some VNil]); (2, 21, [None; Some (VBool false); Some (VBool true)])] [].
Definition c18_data : goval := VObj 1 [(10, VObj 2 [(20, VBool true); (22, VBool false)]); (11, VNil)].
Example C18_nested_instance :
  apply_defaults c18_res c18_data =
  VObj 1 [(10, VObj 2 [(20, VBool true); (22, VBool false); (21, VBool false)]); (11, VNil)].
Proof. vm_compute. reflexivity. Qed.
