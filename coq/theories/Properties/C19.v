(* C19 - Pruning removes exactly the members no schema describes. *)
From Coq Require Import List ZArith Bool.
From Verif Require Import Base.Sx Base.GoVal Schema.Ast Schema.Pipeline Schema.Post Schema.PostFacts.
Import ListNotations.
Open Scope Z_scope.

(* after pruning, the members of an object are exactly those for which some schema was recorded, in their order *)
Theorem C19_members_after_prune : forall r id m,
  exists m', prune r (VObj id m) = VObj id m' /\
             map fst m' = map fst (filter (fun kv => has_field_entry r id (fst kv)) m).
Proof. exact prune_object. Qed.
Print Assumptions C19_members_after_prune.

Theorem C19_member_remains_iff_described : forall r id m k,
  (exists m', prune r (VObj id m) = VObj id m' /\ In k (map fst m')) <->
  (In k (map fst m) /\ has_field_entry r id k = true).
Proof. exact prune_member_remains_iff. Qed.
Print Assumptions C19_member_remains_iff_described.

(* what makes a member "described": a sub-validation of the member merged with mergeForField recorded its schema *)
Theorem C19_described_by_merge_for_field : forall r obj k o e,
  In e (r_fields r) \/ In e (r_fields o) \/ (r_root o <> [] /\ e = (obj, k, r_root o)) ->
  In e (r_fields (merge_for_field r obj k o)).
Proof. exact merge_for_field_fields. Qed.
Print Assumptions C19_described_by_merge_for_field.

Theorem C19_array_elements_keep_their_records : forall r sl i o e,
  In e (r_fields r) \/ In e (r_fields o) -> In e (r_fields (merge_for_slice r sl i o)).
Proof. exact merge_for_slice_fields. Qed.
Print Assumptions C19_array_elements_keep_their_records.
