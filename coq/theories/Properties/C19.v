(* C19 - Pruning removes exactly the members no schema describes. *)
From Coq Require Import List ZArith Bool.
From Verif Require Import Base.Sx Base.GoVal Schema.Ast Schema.Pipeline Schema.Post Schema.PostFacts Schema.PostTree.
Import ListNotations.
Open Scope Z_scope.

(* after pruning, the members of an object are exactly those for which some schema was recorded, in their order *)
Theorem C19_members_after_prune : forall r id m,
  exists m', prune r (VObj id m) = VObj id m' /\
             map fst m' = map fst (filter (fun kv => has_field_entry r id (fst kv)) m).
Proof. exact prune_object. Qed.
Print Assumptions C19_members_after_prune.

Theorem C19_member_remains_iff_described : forall r id m k,
  (exists m', prune r (VObj id m) = VObj id m' /\ In k (map fst m')) <->
  (In k (map fst m) /\ has_field_entry r id k = true).
Proof. exact prune_member_remains_iff. Qed.
Print Assumptions C19_member_remains_iff_described.

(* what makes a member "described": a sub-validation of the member merged with mergeForField recorded its schema *)
Theorem C19_described_by_merge_for_field : forall r obj k o e,
  In e (r_fields r) \/ In e (r_fields o) \/ (r_root o <> [] /\ e = (obj, k, r_root o)) ->
  In e (r_fields (merge_for_field r obj k o)).
Proof. exact merge_for_field_fields. Qed.
Print Assumptions C19_described_by_merge_for_field.

Theorem C19_array_elements_keep_their_records : forall r sl i o e,
  In e (r_fields r) \/ In e (r_fields o) -> In e (r_fields (merge_for_slice r sl i o)).
Proof. exact merge_for_slice_fields. Qed.
Print Assumptions C19_array_elements_keep_their_records.

(* the same holds at every nesting level: pruning an object prunes every member that stays, with no bound on depth
   (the fuel of the model is never the reason for an answer) *)
Theorem C19_prune_at_every_level : forall r id m,
  prune r (VObj id m) =
  VObj id (map (fun kv => (fst kv, prune r (snd kv))) (filter (fun kv => has_field_entry r id (fst kv)) m)).
Proof. exact prune_obj_eq. Qed.
Print Assumptions C19_prune_at_every_level.

Theorem C19_prune_array_elementwise : forall r sl l, prune r (VArr sl l) = VArr sl (map (prune r) l).
Proof. exact prune_arr_eq. Qed.
Print Assumptions C19_prune_array_elementwise.

Theorem C19_prune_leaves_scalars : forall r v, is_container v = false -> prune r v = v.
Proof. exact prune_scalar_eq. Qed.
Print Assumptions C19_prune_leaves_scalars.

(* nothing is ever added, renamed, reordered or altered: the result is the instance with members removed *)
Theorem C19_prune_only_removes_members : forall r d, sub_keys (prune r d) d.
Proof. exact prune_sub_keys. Qed.
Print Assumptions C19_prune_only_removes_members.

(* pruning what was pruned (with the same result) removes nothing more *)
Theorem C19_prune_idempotent : forall r d, prune r (prune r d) = prune r d.
Proof. exact prune_idem. Qed.
Print Assumptions C19_prune_idempotent.

(* non-vacuity: a nested instance on which pruning removes an inner and an outer member, keeps the described ones, and a
   second pruning changes nothing *)
Definition c19_res : res := mkRes [] 0 [] [(1, 10, [None]); (2, 20, [None]); (2, 21, [Some (VBool false)])] [].
Definition c19_data : goval := VObj 1 [(10, VObj 2 [(20, VBool true); (22, VBool false)]); (11, VNil)].
Example C19_nested_instance :
  prune c19_res c19_data = VObj 1 [(10, VObj 2 [(20, VBool true)])] /\
  prune c19_res (prune c19_res c19_data) = prune c19_res c19_data.
Proof. split; vm_compute; reflexivity. Qed.
