(* C16 - Parameter, header and items validators follow Swagger simple-schema semantics. *)
From Coq Require Import List ZArith Bool.
From Verif Require Import Base.Sx Base.GoVal Schema.Ast Schema.Pipeline Schema.Simple Schema.SimpleFacts.
Import ListNotations.
Open Scope Z_scope.

(* a nil value is not validated *)
Theorem C16_nil_not_validated : forall OR N sr, simple_validate OR N sr VNil = Ok None.
Proof. exact simple_nil. Qed.
Print Assumptions C16_nil_not_validated.

(* ... and every other value is *)
Theorem C16_non_nil_validated : forall OR N sr d o, d <> VNil -> simple_validate OR N sr d = Ok o -> o <> None.
Proof. exact simple_non_nil_validated. Qed.
Print Assumptions C16_non_nil_validated.

(* The chain type -> string -> format -> number -> slice -> enum stops at the first failing group, yet the verdict
   is the conjunction of ALL groups that apply to the value's kind: no group can be skipped to the effect of
   accepting a value another group rejects. *)
Theorem C16_verdict_is_conjunction_of_groups : forall OR N sr d r,
  d <> VNil -> simple_validate OR N sr d = Ok (Some r) ->
  r_valid r = forallb step_valid (group_verdicts OR N sr d).
Proof. exact simple_verdict_is_conjunction. Qed.
Print Assumptions C16_verdict_is_conjunction_of_groups.

Theorem C16_chain_first_error_exit_is_sound : forall inc steps r0 r,
  chain inc steps r0 = Ok r -> r_valid r = r_valid r0 && forallb step_valid steps.
Proof. exact chain_verdict. Qed.
Print Assumptions C16_chain_first_error_exit_is_sound.
