(* C16 - Parameter, header and items validators follow Swagger simple-schema semantics. *)
From Coq Require Import List ZArith Bool QArith Lia.
From Verif Require Import Base.Sx Base.GoVal Base.F64 Schema.Ast Schema.Pipeline Schema.Draft4 Schema.Simple Schema.SimpleFacts Schema.AgreementData Schema.AgreementDec Schema.AgreementFlocq Schema.SimpleAgree Schema.SimpleAgreeDec Schema.Numeric Schema.SimpleCarrier Schema.SimpleCarrierDec Base.F64Exact Schema.NumericFlocq.
Import ListNotations.
Open Scope Z_scope.

(* a nil value is not validated *)
Theorem C16_nil_not_validated : forall OR N sr, simple_validate OR N sr VNil = Ok None.
Proof. exact simple_nil. Qed.
Print Assumptions C16_nil_not_validated.

(* ... and every other value is *)
Theorem C16_non_nil_validated : forall OR N sr d o, d <> VNil -> simple_validate OR N sr d = Ok o -> o <> None.
Proof. exact simple_non_nil_validated. Qed.
Print Assumptions C16_non_nil_validated.

(* The chain type -> string -> format -> number -> slice -> enum stops at the first failing group, yet the verdict
   is the conjunction of ALL groups that apply to the value's kind: no group can be skipped to the effect of
   accepting a value another group rejects. *)
Theorem C16_verdict_is_conjunction_of_groups : forall OR N sr d r,
  d <> VNil -> simple_validate OR N sr d = Ok (Some r) ->
  r_valid r = forallb step_valid (group_verdicts OR N sr d).
Proof. exact simple_verdict_is_conjunction. Qed.
Print Assumptions C16_verdict_is_conjunction_of_groups.

Theorem C16_chain_first_error_exit_is_sound : forall inc steps r0 r,
  chain inc steps r0 = Ok r -> r_valid r = r_valid r0 && forallb step_valid steps.
Proof. exact chain_verdict. Qed.
Print Assumptions C16_chain_first_error_exit_is_sound.

(* ---- the agreement theorem ---- *)

(* The declarative reading of a Swagger simple schema ([q_spec], [root_spec] in Schema/SimpleAgree.v): at every level the
   draft-4 semantics of its keywords (the very functions of Schema/Draft4.v: type, enum, the numeric and the string
   keywords with format as an assertion, the array keywords with the items recursion), a declared numeric type and format
   bounding the value (integers integral and inside int32 / uint32 / uint64 / int64, float inside binary32), and for the
   parameter or header itself the required-and-empty rule.

   On the class [qclean] / [qfits] - no x-nullable; enumerated values are JSON; the pattern compiles; bounds and factor are
   numbers of the declared type and format; the formats of the levels are known together with the format of the parameter;
   a format sits next to a numeric type, or the value at that level is not a string or array of another declared type; the
   value is decoded JSON without null (and not the one float64, -2^63, that prints outside int64) - the verdict of
   NewParamValidator / NewHeaderValidator (...).Validate is the verdict of that reading: for every oracle and every numeric
   implementation with a total order and a symmetric equality.  The excluded shapes are exactly where the recorded finding
   classes of C16 live (constraint-outside-declared-type, items-format-needs-root-format, type-format-shortcut) plus
   x-nullable and typed Go carriers, which the tie and the exact oracle decide per case. *)
Theorem C16_agreement_with_the_declarative_reading_partial :
  forall OR N (fin : f64 -> Prop),
  (forall a b, fin a -> fin b -> n_lt N a b = negb (n_le N b a)) ->
  (forall a b, fin a -> fin b -> n_eq N a b = n_eq N b a) ->
  forall sr d, qclean OR N fin (q_format (sr_simple sr)) (sr_simple sr) -> jd fin false true d -> qfits N (sr_simple sr) d ->
  exists r, simple_validate OR N sr d = Ok (Some r) /\ r_valid r = root_spec OR N sr d.
Proof. exact simple_agree. Qed.
Print Assumptions C16_agreement_with_the_declarative_reading_partial.

(* ... and the same at every level below: the items validator of an element at any depth *)
Theorem C16_items_agreement_partial :
  forall OR N (fin : f64 -> Prop),
  (forall a b, fin a -> fin b -> n_lt N a b = negb (n_le N b a)) ->
  (forall a b, fin a -> fin b -> n_eq N a b = n_eq N b a) ->
  forall rf it p i d, qclean OR N fin rf it -> jd fin false true d -> qfits N it d ->
  exists r, items_validate OR N rf it p i d = Ok r /\ r_valid r = q_spec OR N it d.
Proof. exact items_agree. Qed.
Print Assumptions C16_items_agreement_partial.

(* the class is decidable; the procedure is evaluated on every case of the correspondence run *)
Theorem C16_fragment_decision_is_sound : forall OR N fin_b sr fuel d,
  qclean_b OR N fin_b (q_format (sr_simple sr)) (sr_simple sr) = true -> jd_b fin_b false true fuel d = true -> qfits_b N (sr_simple sr) d = true ->
  qclean OR N (finP fin_b) (q_format (sr_simple sr)) (sr_simple sr) /\ jd (finP fin_b) false true d /\ qfits N (sr_simple sr) d.
Proof.
  intros OR N fin_b sr fuel d H1 H2 H3.
  split; [apply qclean_b_sound; exact H1|]. split; [apply (jd_b_sound fin_b false true fuel d H2) | apply qfits_b_sound; exact H3].
Qed.
Print Assumptions C16_fragment_decision_is_sound.

(* the instance the correspondence run executes (Flocq binary64) *)
Theorem C16_agreement_for_the_binary64_model : forall OR sr fuel d,
  qclean_b OR flocq_ops f_finite (q_format (sr_simple sr)) (sr_simple sr) = true -> jd_b f_finite false true fuel d = true ->
  qfits_b flocq_ops (sr_simple sr) d = true ->
  exists r, simple_validate OR flocq_ops sr d = Ok (Some r) /\ r_valid r = root_spec OR flocq_ops sr d.
Proof.
  intros OR sr fuel d H1 H2 H3.
  apply (simple_agree OR flocq_ops (finP f_finite) flocq_order_total flocq_eq_sym sr d);
    [apply qclean_b_sound; exact H1 | apply (jd_b_sound f_finite false true fuel d H2) | apply qfits_b_sound; exact H3].
Qed.
Print Assumptions C16_agreement_for_the_binary64_model.

(* non-vacuity: a query parameter {type: array, minItems: 1, uniqueItems: true, items: {type: array, items: {type: integer,
   format: int32, maximum: 7}}} and the value [[1, 2], [3]] over exact integers *)
Definition c16_ops : numops :=
  {| n_le := Z.leb; n_lt := Z.ltb; n_eq := Z.eqb; n_is_int := fun _ => true;
     n_mult_of := fun a f => if f <=? 0 then MNotPositive else if Z.eqb (a mod f) 0 then MOk else MNotMultiple;
     n_of_int := fun z => z; n_to_int64 := fun z => z; n_to_uint64 := fun z => z; n_exact_int := fun z => Some z; n_fits_f32 := fun _ => true |}.
Definition c16_leaf : simple := mkSimple k_integer false k_int32 None [] None (Some 7) false None false None None 0 None None false None.
Definition c16_row : simple := mkSimple k_array false 0 None [] None None false None false None None 0 None None false (Some c16_leaf).
Definition c16_param : sroot :=
  {| sr_header := false; sr_name := 40; sr_required := true; sr_allow_empty := false;
     sr_simple := mkSimple k_array false 0 None [] None None false None false None None 0 None (Some 1) true (Some c16_row) |}.
Definition c16_value : goval := VArr 1 [VArr 2 [VFlt false 1; VFlt false 2]; VArr 3 [VFlt false 3]].
Definition c16_oracles : oracles :=
  {| o_rune_len := fun _ => 0; o_re_ok := fun _ => true; o_re_match := fun _ _ => false; o_fmt_known := fun _ => false; o_fmt_check := fun _ _ => true |}.
Example C16_fragment_is_inhabited :
  qclean_b c16_oracles c16_ops (fun _ => true) 0 (sr_simple c16_param) = true /\
  jd_b (fun _ => true) false true 4 c16_value = true /\ qfits_b c16_ops (sr_simple c16_param) c16_value = true /\
  root_spec c16_oracles c16_ops c16_param c16_value = true /\
  root_spec c16_oracles c16_ops c16_param (VArr 1 [VArr 2 [VFlt false 1; VFlt false 8]]) = false.
Proof. vm_compute. repeat split. Qed.

(* ---- typed values: what generated server code hands over after binding (int8 .. uint64, float32, typed slices) ----
   A typed value is read as the JSON value it carries ([as_json]: an integer as the number it is, a float32 widened, a
   typed slice as an array).  For every numeric implementation that is exact on the numbers involved - the interface of
   C13 ([exact_iface]) plus equality, the integer test, the conversions back to integers and the float32 range
   ([carrier_iface]) - the verdict on the typed value is the declarative reading of the value it carries: integers strictly
   inside +-2^53 and inside their kind; multipleOf on an integer carrier with a fractional factor, with an
   integral factor that is <= 0 or divides the value, or with any integral factor when the implementation's divisibility test
   is exact on +-2^26 ([mult_iface], asked for inside [tfits]);
   arrays holding typed values without enum and uniqueItems at that level (reflect.DeepEqual tells the carriers apart:
   finding equality-type-sensitive). *)
Theorem C16_typed_values_agree_with_the_reading_of_the_value_they_carry_partial :
  forall OR N value ok, exact_iface N value ok -> carrier_iface N value ok ->
  forall sr d, qclean OR N ok (q_format (sr_simple sr)) (sr_simple sr) -> tj ok d -> tfits N value ok (sr_simple sr) d ->
  exists r, simple_validate OR N sr d = Ok (Some r) /\ r_valid r = root_spec OR N sr (as_json N d).
Proof. exact simple_agree_t. Qed.
Print Assumptions C16_typed_values_agree_with_the_reading_of_the_value_they_carry_partial.

Theorem C16_typed_items_agreement_partial :
  forall OR N value ok, exact_iface N value ok -> carrier_iface N value ok ->
  forall rf it p i d, qclean OR N ok rf it -> tj ok d -> tfits N value ok it d ->
  exists r, items_validate OR N rf it p i d = Ok r /\ r_valid r = q_spec OR N it (as_json N d).
Proof. exact items_agree_t. Qed.
Print Assumptions C16_typed_items_agreement_partial.

(* the typed class is decidable as well (mi: whether the divisibility clause is available for the implementation) *)
Theorem C16_typed_fragment_decision_is_sound : forall OR N value ok, exact_iface N value ok ->
  forall ok_b, (forall f, ok_b f = true -> ok f) -> forall mi, (mi = true -> mult_iface N value ok) -> forall sr fuel d,
  qclean_b OR N ok_b (q_format (sr_simple sr)) (sr_simple sr) = true -> tj_b ok_b fuel d = true -> tfits_b N ok_b mi (sr_simple sr) d = true ->
  qclean OR N (finP ok_b) (q_format (sr_simple sr)) (sr_simple sr) /\ tj ok d /\ tfits N value ok (sr_simple sr) d.
Proof.
  intros OR N value ok X ok_b Hs mi Hmi sr fuel d H1 H2 H3.
  split; [apply qclean_b_sound; exact H1|]. split; [apply (tj_b_sound ok ok_b Hs fuel d H2) | apply (tfits_b_sound N value ok X ok_b Hs mi Hmi _ _ H3)].
Qed.
Print Assumptions C16_typed_fragment_decision_is_sound.

(* the instance the correspondence run executes: Flocq binary64 satisfies both interfaces (Schema/NumericFlocq.v), so the
   agreement on typed values holds of the very model that is run against Go - except for multipleOf with a positive integral
   factor that does not divide the integer carried (that the division test rejects it is not proved of binary64; decision
   procedure run with mi = false) *)
Theorem C16_typed_agreement_for_the_binary64_model : forall OR sr fuel d,
  qclean_b OR flocq_ops f_finite (q_format (sr_simple sr)) (sr_simple sr) = true -> tj_b f_finite fuel d = true ->
  tfits_b flocq_ops f_finite false (sr_simple sr) d = true ->
  exists r, simple_validate OR flocq_ops sr d = Ok (Some r) /\ r_valid r = root_spec OR flocq_ops sr (as_json flocq_ops d).
Proof.
  intros OR sr fuel d H1 H2 H3.
  apply (simple_agree_t OR flocq_ops fvalue fok flocq_exact flocq_carrier sr d).
  - apply qclean_b_sound. exact H1.
  - apply (tj_b_sound fok f_finite (fun f H => H) fuel d H2).
  - apply (tfits_b_sound flocq_ops fvalue fok flocq_exact f_finite (fun f H => H) false (fun H => False_ind _ (Bool.diff_false_true H)) _ _ H3).
Qed.
Print Assumptions C16_typed_agreement_for_the_binary64_model.

(* non-vacuity: the interfaces are satisfiable with the divisibility clause too (exact integers), and on them a header
   {type: array, items: {type: integer, format: int32, maximum: 7, multipleOf: 2}} judges the typed slice []int8{2, 4}
   like [2, 4] and rejects []int64{2, 9} like [2, 9] *)
Example C16_interfaces_satisfiable :
  exact_iface c16_ops inject_Z (fun _ => True) /\ carrier_iface c16_ops inject_Z (fun _ => True) /\ mult_iface c16_ops inject_Z (fun _ => True).
Proof.
  split; [|split]; [constructor | constructor | unfold mult_iface]; simpl; intros; try reflexivity.
  - rewrite Z.ltb_lt, Zlt_Qlt. tauto.
  - rewrite Z.leb_le, Zle_Qle. tauto.
  - split; [intros E; injection E as ->; reflexivity|intros E; f_equal; unfold Qeq in E; simpl in E; lia].
  - split; [exact I|reflexivity].
  - rewrite Z.eqb_eq. unfold Qeq. simpl. lia.
  - assert (E : f = g) by (unfold Qeq in *; simpl in *; lia). subst f. split.
    + intros Hg. apply Z.leb_le in Hg. rewrite Hg. reflexivity.
    + intros Hg Hd. assert (E : (g <=? 0) = false) by (apply Z.leb_gt; exact Hg). rewrite E, Hd. reflexivity.
  - match goal with H : (_ <=? 0) = true |- _ => rewrite H end. reflexivity.
  - assert (E : f = g) by (unfold Qeq in *; simpl in *; lia). subst f. reflexivity.
Qed.

Definition c16_even : simple := mkSimple k_integer false k_int32 None [] (Some 2) (Some 7) false None false None None 0 None None false None.
Definition c16_header : sroot :=
  {| sr_header := true; sr_name := 41; sr_required := true; sr_allow_empty := false;
     sr_simple := mkSimple k_array false 0 None [] None None false None false None None 0 None None false (Some c16_even) |}.
Example C16_typed_fragment_is_inhabited :
  qclean_b c16_oracles c16_ops (fun _ => true) 0 (sr_simple c16_header) = true /\
  tj_b (fun _ => true) 3 (VSlice 3 [VInt KInt8 2; VInt KInt8 4]) = true /\
  tfits_b c16_ops (fun _ => true) true (sr_simple c16_header) (VSlice 3 [VInt KInt8 2; VInt KInt8 4]) = true /\
  as_json c16_ops (VSlice 3 [VInt KInt8 2; VInt KInt8 4]) = VArr 0 [VFlt false 2; VFlt false 4] /\
  root_spec c16_oracles c16_ops c16_header (as_json c16_ops (VSlice 3 [VInt KInt8 2; VInt KInt8 4])) = true /\
  tfits_b c16_ops (fun _ => true) true (sr_simple c16_header) (VSlice 9 [VInt KInt64 2; VInt KInt64 9]) = true /\
  root_spec c16_oracles c16_ops c16_header (as_json c16_ops (VSlice 9 [VInt KInt64 2; VInt KInt64 9])) = false.
Proof. vm_compute. repeat split. Qed.

(* ... and for the binary64 model: a query parameter {type: integer, format: int64, minimum: 3} and the value uint16(7) *)
Definition c16_min3 : sroot :=
  {| sr_header := false; sr_name := 42; sr_required := false; sr_allow_empty := false;
     sr_simple := mkSimple k_integer false k_int64 None [] None None false (Some (f_of_Z 3)) false None None 0 None None false None |}.
Example C16_typed_binary64_fragment_is_inhabited :
  qclean_b c16_oracles flocq_ops f_finite k_int64 (sr_simple c16_min3) = true /\
  tj_b f_finite 2 (VInt KUint16 7) = true /\ tfits_b flocq_ops f_finite false (sr_simple c16_min3) (VInt KUint16 7) = true /\
  root_spec c16_oracles flocq_ops c16_min3 (as_json flocq_ops (VInt KUint16 7)) = true /\
  root_spec c16_oracles flocq_ops c16_min3 (as_json flocq_ops (VInt KUint16 2)) = false.
Proof. vm_compute. repeat split. Qed.
