(* C20 - Results combine as ordered sets of messages with additive match counts.
   Theorems only; each closed by [exact] of a lemma proved elsewhere. *)
From Coq Require Import List ZArith.
From Verif Require Import Base.Sx Result.ResultModel Result.ResultLaws.
Import ListNotations.
Open Scope Z_scope.

(* every observable state of every history equals the ordered-set specification *)
Theorem C20_refines_ordered_sets : forall ops st, trace st ops = spec_trace st ops.
Proof. exact refines_ordered_sets. Qed.
Print Assumptions C20_refines_ordered_sets.

(* the nested scan of AddErrors/AddWarnings is ordered-set union: nils ignored *)
Theorem C20_add_is_union : forall es l, add_msgs l es = spec_add l es.
Proof. exact add_msgs_spec. Qed.
Print Assumptions C20_add_is_union.

Theorem C20_union_membership : forall l es m, In m (spec_add l es) <-> In m l \/ In (Some m) es.
Proof. exact spec_add_In. Qed.
Print Assumptions C20_union_membership.

Theorem C20_union_first_occurrence_order : forall l es,
  exists new, spec_add l es = l ++ new /\ sublist new (somes es) /\ NoDup new.
Proof. exact spec_add_prefix. Qed.
Print Assumptions C20_union_first_occurrence_order.

(* no history ever produces a duplicate message *)
Theorem C20_never_duplicates : forall ops, wf_state (fold_left step ops init).
Proof. exact never_duplicates. Qed.
Print Assumptions C20_never_duplicates.

Theorem C20_merge_no_loss : forall r o m,
  (In m (errs (merge1 r o)) <-> In m (errs r) \/ In m (errs o)) /\
  (In m (warns (merge1 r o)) <-> In m (warns r) \/ In m (warns o)).
Proof. exact merge_no_loss. Qed.
Print Assumptions C20_merge_no_loss.

Theorem C20_matchcount_additive : forall r o, mc (merge1 r o) = mc r + mc o.
Proof. exact merge_matchcount_additive. Qed.
Print Assumptions C20_matchcount_additive.

Theorem C20_merge_as_errors_moves_all : forall r o m,
  (In m (errs (merge_as_errors1 r o)) <-> In m (errs r) \/ In m (errs o) \/ In m (warns o)) /\
  warns (merge_as_errors1 r o) = warns r /\ mc (merge_as_errors1 r o) = mc r + mc o.
Proof. exact merge_as_errors_moves_all. Qed.
Print Assumptions C20_merge_as_errors_moves_all.

Theorem C20_merge_as_warnings_moves_all : forall r o m,
  (In m (warns (merge_as_warnings1 r o)) <-> In m (warns r) \/ In m (errs o) \/ In m (warns o)) /\
  errs (merge_as_warnings1 r o) = errs r /\ mc (merge_as_warnings1 r o) = mc r + mc o.
Proof. exact merge_as_warnings_moves_all. Qed.
Print Assumptions C20_merge_as_warnings_moves_all.

Theorem C20_valid_iff_no_errors : forall r, is_valid (Some r) = true <-> errs r = [].
Proof. exact valid_iff_no_errors. Qed.
Print Assumptions C20_valid_iff_no_errors.

Theorem C20_nil_queries_total :
  is_valid None = true /\ has_errors None = false /\ has_warnings None = false /\ has_errors_or_warnings None = false.
Proof. exact nil_queries_total. Qed.
Print Assumptions C20_nil_queries_total.

(* later operations on other results never reach a result they were merged into *)
Theorem C20_operands_independent : forall v ops st,
  Forall (fun o => target o <> v) ops -> get (fold_left step ops st) v = get st v.
Proof. exact later_changes_do_not_reach. Qed.
Print Assumptions C20_operands_independent.

(* non-vacuity: a concrete history with duplicates, nils, self-merge and a nil operand *)
Example C20_example :
  let ops := [ONew 0; ONew 1; OAddErrors 0 [Some 1; None; Some 2; Some 1]; OAddWarnings 1 [Some 2; Some 3];
              OInc 1; OMerge 0 [1; 2; 0]%nat; OMergeAsErrors 1 [0%nat]] in
  map (fun r => option_map (fun r => (errs r, warns r, mc r)) r) (fold_left step ops init)
  = [Some ([1; 2], [2; 3], 2); Some ([1; 2; 3], [2; 3], 3); None; None].
Proof. vm_compute. reflexivity. Qed.
