(* C13 - Numeric verdicts depend on the number, not on the Go type that carries it.
   The theorems hold for every numops implementation that is exact on the values involved ([exact_iface]);
   the binary64 instance used by the code is tied to Go bit for bit by the correspondence run, and its
   inexact corners (division + tolerance in multipleOf, the integer test) are the recorded class numeric-inexact. *)
From Coq Require Import List ZArith Bool QArith Lia.
From Verif Require Import Base.Sx Base.GoVal Base.F64 Base.F64Exact Schema.Ast Schema.Pipeline Schema.Numeric Schema.NumericFlocq.
Import ListNotations.
Open Scope Z_scope.

(* maximum (inclusive / exclusive): error reported exactly when the carried number exceeds / reaches the bound,
   for all ten integer kinds, float32, float64 (and json.Number after its conversion) *)
Theorem C13_maximum_exact : forall N value ok, exact_iface N value ok ->
  forall d mx excl q, carrier_ok ok d -> ok mx -> carried value d = Some q ->
  (max_native N d mx excl = true <-> if excl then (value mx <= q)%Q else (value mx < q)%Q).
Proof. exact max_native_exact. Qed.
Print Assumptions C13_maximum_exact.

Theorem C13_minimum_exact : forall N value ok, exact_iface N value ok ->
  forall d mn excl q, carrier_ok ok d -> ok mn -> carried value d = Some q ->
  (min_native N d mn excl = true <-> if excl then (q <= value mn)%Q else (q < value mn)%Q).
Proof. exact min_native_exact. Qed.
Print Assumptions C13_minimum_exact.

(* same number, same verdict, whatever the carrier *)
Theorem C13_maximum_carrier_independent : forall N value ok, exact_iface N value ok ->
  forall d1 d2 mx excl q, carrier_ok ok d1 -> carrier_ok ok d2 -> ok mx ->
  carried value d1 = Some q -> carried value d2 = Some q -> max_native N d1 mx excl = max_native N d2 mx excl.
Proof. exact max_carrier_independent. Qed.
Print Assumptions C13_maximum_carrier_independent.

Theorem C13_minimum_carrier_independent : forall N value ok, exact_iface N value ok ->
  forall d1 d2 mn excl q, carrier_ok ok d1 -> carrier_ok ok d2 -> ok mn ->
  carried value d1 = Some q -> carried value d2 = Some q -> min_native N d1 mn excl = min_native N d2 mn excl.
Proof. exact min_carrier_independent. Qed.
Print Assumptions C13_minimum_carrier_independent.

(* multipleOf with an integral factor on an integer carrier is integer divisibility (factor <= 0 is reported) *)
Theorem C13_multipleOf_integer_exact : forall N value ok, exact_iface N value ok ->
  forall k z factor f, small z -> (ikind_signed k = false -> 0 <= z) -> ok factor -> (value factor == inject_Z f)%Q -> small f ->
  mult_native N (VInt k z) factor = if f <=? 0 then MNotPositive else if Z.eqb (z mod f) 0 then MOk else MNotMultiple.
Proof. exact mult_native_int_exact. Qed.
Print Assumptions C13_multipleOf_integer_exact.

(* json.Number (a document decoded with UseNumber): against a numeric type the schema validator converts it first -
   Int64() when the type list names integer, Float64() otherwise - and from there on it is judged as that int64 / float64:
   the carrier theorems above apply to it through these two equations *)
Theorem C13_json_number_is_judged_as_the_int64_it_converts_to :
  forall OR N opt rec_sp s p q lit z af, contains k_integer (s_types s) = true ->
  sv_body OR N opt rec_sp s p q (VJnum lit (Some z) af) = sv_body OR N opt rec_sp s p q (VInt KInt64 z).
Proof.
  intros OR N opt rec_sp s p q lit z af H. unfold sv_body, types_numeric. rewrite H, orb_true_r. reflexivity.
Qed.
Print Assumptions C13_json_number_is_judged_as_the_int64_it_converts_to.

Theorem C13_json_number_is_judged_as_the_float64_it_converts_to :
  forall OR N opt rec_sp s p q lit ai f, contains k_integer (s_types s) = false -> contains k_number (s_types s) = true ->
  sv_body OR N opt rec_sp s p q (VJnum lit ai (Some f)) = sv_body OR N opt rec_sp s p q (VFlt false f).
Proof.
  intros OR N opt rec_sp s p q lit ai f H1 H2. unfold sv_body, types_numeric. rewrite H1, H2. reflexivity.
Qed.
Print Assumptions C13_json_number_is_judged_as_the_float64_it_converts_to.

(* the binary64 instance that the correspondence run executes against Go satisfies the interface (Base/F64Exact.v: the order
   is the order of the values, the integer value is the integer value, integers within +-2^53 convert exactly): the
   theorems above hold of the very model that is tied to the code *)
Theorem C13_the_binary64_model_satisfies_the_interface : exact_iface flocq_ops fvalue fok.
Proof. exact flocq_exact. Qed.
Print Assumptions C13_the_binary64_model_satisfies_the_interface.

Theorem C13_maximum_exact_for_the_binary64_model :
  forall d mx excl q, carrier_ok fok d -> fok mx -> carried fvalue d = Some q ->
  (max_native flocq_ops d mx excl = true <-> if excl then (fvalue mx <= q)%Q else (fvalue mx < q)%Q).
Proof. exact (max_native_exact flocq_ops fvalue fok flocq_exact). Qed.
Print Assumptions C13_maximum_exact_for_the_binary64_model.

Theorem C13_minimum_exact_for_the_binary64_model :
  forall d mn excl q, carrier_ok fok d -> fok mn -> carried fvalue d = Some q ->
  (min_native flocq_ops d mn excl = true <-> if excl then (q <= fvalue mn)%Q else (q < fvalue mn)%Q).
Proof. exact (min_native_exact flocq_ops fvalue fok flocq_exact). Qed.
Print Assumptions C13_minimum_exact_for_the_binary64_model.

Theorem C13_multipleOf_integer_exact_for_the_binary64_model :
  forall k z factor f, small z -> (ikind_signed k = false -> 0 <= z) -> fok factor -> (fvalue factor == inject_Z f)%Q -> small f ->
  mult_native flocq_ops (VInt k z) factor = if f <=? 0 then MNotPositive else if Z.eqb (z mod f) 0 then MOk else MNotMultiple.
Proof. exact (mult_native_int_exact flocq_ops fvalue fok flocq_exact). Qed.
Print Assumptions C13_multipleOf_integer_exact_for_the_binary64_model.

(* the same number, whatever carries it: an integer carrier and the float64 that holds the same integer get the same
   answer from maximum and minimum - of the binary64 model *)
Theorem C13_maximum_carrier_independent_for_the_binary64_model :
  forall k z mx excl, small z -> (ikind_signed k = false -> 0 <= z) -> fok mx ->
  max_native flocq_ops (VInt k z) mx excl = max_native flocq_ops (VFlt false (f_of_Z z)) mx excl.
Proof.
  intros k z mx excl Hs Hu Hm. destruct (f_of_Z_exact z Hs) as [Ho Hv].
  eapply bool_iff.
  - apply (max_native_exact flocq_ops fvalue fok flocq_exact (VInt k z) mx excl (inject_Z z)); [split; assumption | exact Hm | reflexivity].
  - rewrite (max_native_exact flocq_ops fvalue fok flocq_exact (VFlt false (f_of_Z z)) mx excl (fvalue (f_of_Z z))); [|exact Ho | exact Hm | reflexivity].
    destruct excl; rewrite Hv; tauto.
Qed.
Print Assumptions C13_maximum_carrier_independent_for_the_binary64_model.

(* e.g. int64(2^53) against the exclusive maximum 2^53 (a float64): reported, by the integer comparison *)
Example C13_binary64_edge : max_native flocq_ops (VInt KInt64 (2 ^ 53)) (f_of_Z (2 ^ 53)) true = true /\
                            max_native flocq_ops (VInt KInt64 (2 ^ 53 - 1)) (f_of_Z (2 ^ 53)) true = false.
Proof. vm_compute. split; reflexivity. Qed.

(* non-vacuity: the interface is satisfiable (a numops whose "floats" are the integers themselves) *)
Definition toy_ops : numops :=
  {| n_le := Z.leb; n_lt := Z.ltb; n_eq := Z.eqb; n_is_int := fun _ => true;
     n_mult_of := fun a f => if f <=? 0 then MNotPositive else if Z.eqb (a mod f) 0 then MOk else MNotMultiple;
     n_of_int := fun z => z; n_to_int64 := fun z => z; n_to_uint64 := fun z => z;
     n_exact_int := fun z => Some z; n_fits_f32 := fun _ => true |}.

Example C13_interface_satisfiable : exact_iface toy_ops inject_Z (fun _ => True).
Proof.
  constructor; simpl; intros.
  - rewrite Z.ltb_lt, Zlt_Qlt. tauto.
  - rewrite Z.leb_le, Zle_Qle. tauto.
  - split; [intros E; injection E as ->; reflexivity|intros E; f_equal; unfold Qeq in E; simpl in E; lia].
  - split; [exact I|reflexivity].
Qed.

(* and on it, the fractional-bound cases the unrepaired code got wrong: int 3 against exclusiveMaximum 4 passes,
   against exclusiveMaximum 3 fails, for a signed and an unsigned carrier alike *)
Example C13_example :
  (max_native toy_ops (VInt KInt8 3) 4 true, max_native toy_ops (VInt KUint64 3) 4 true,
   max_native toy_ops (VInt KInt8 3) 3 true, max_native toy_ops (VInt KUint64 3) 3 true) = (false, false, true, true).
Proof. vm_compute. reflexivity. Qed.
