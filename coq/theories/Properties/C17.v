(* C17 - Every rejection is explained by well-formed, correctly located errors. *)
From Coq Require Import List ZArith Bool Lia.
From Verif Require Import Base.Sx Base.GoVal Schema.Ast Schema.Build Schema.Pipeline Schema.PipelineFacts Schema.PipelineTerm Schema.PipelineNames Schema.PipelineLocate Schema.PipelineLocateDec.
Import ListNotations.
Open Scope Z_scope.

(* an invalid verdict always carries at least one error and a valid one none *)
Theorem C17_valid_iff_no_error : forall r, r_valid r = true <-> r_errs r = [].
Proof. exact r_valid_nil. Qed.
Print Assumptions C17_valid_iff_no_error.

(* the one-shot entry point returns nil, or exactly the errors of the underlying result *)
Theorem C17_oneshot_exact : forall OR N opt defs fuel s d,
  match sv_validate OR N opt defs fuel s [SRoot 0] [SRoot 0] d with
  | Ok r => against_schema OR N opt defs fuel s d = Ok (if r_valid r then None else Some (r_errs r))
  | Panic site => against_schema OR N opt defs fuel s d = Panic site
  | OutOfFuel => against_schema OR N opt defs fuel s d = OutOfFuel
  end.
Proof. exact against_schema_spec. Qed.
Print Assumptions C17_oneshot_exact.

(* message-keyed de-duplication: adding errors never creates a duplicate and never loses a message *)
Theorem C17_add_errors_no_duplicates : forall es l, NoDup l -> NoDup (add_errs l es).
Proof. exact add_errs_NoDup. Qed.
Print Assumptions C17_add_errors_no_duplicates.

Theorem C17_add_errors_membership : forall es l x, In x (add_errs l es) <-> In x l \/ In x es.
Proof. exact add_errs_In. Qed.
Print Assumptions C17_add_errors_membership.

(* merging can only turn a valid result invalid when an operand is invalid *)
Theorem C17_merge_valid : forall r o,
  r_valid (merge r o) = r_valid r && match o with Some o => r_valid o | None => true end.
Proof. exact r_valid_merge. Qed.
Print Assumptions C17_merge_valid.

(* every error of a result is about the instance the validator was given: its name is empty (two messages carry no
   name) or extends the validator's path - for every schema, value, oracle, numeric implementation, environment and
   fuel, with the two Swagger pre-checks off (they name the keyword, not the place) *)
Theorem C17_names_extend_the_path : forall OR N opt defs,
  opt_array_must_have_items opt = false -> opt_obj_array_type_check opt = false ->
  forall fuel s p d r, sv_validate OR N opt defs fuel s p p d = Ok r ->
  forall e, In e (r_errs r) -> m_name e = [] \/ extends p (m_name e).
Proof.
  intros OR N opt defs H1 H2 fuel s p d r Hr e He.
  pose proof (names_extend_the_path OR N opt defs H1 H2 fuel s p p d (extends_refl p)) as H. rewrite Hr in H. exact (H e He).
Qed.
Print Assumptions C17_names_extend_the_path.

(* ... and it designates the place: the name of every error is empty, or the validator's path is empty (names are then relative
   to the caller), or it is the validator's path followed by a walk into the value - member names of objects that have that
   member (or the name of a member that is missing, as "required" reports), indices that exist in the array.  For every schema
   of a set W closed under sub-schemas and reference targets in which no schema uses the single-schema form of items nor a
   schema dependency (the two keywords that build their sub-validator on the parent's path: slice_validator.go:96-103,
   schema_props.go:309; the property's text excludes them), for every value, oracle, numeric implementation, environment and
   fuel, with the two Swagger pre-checks off. *)
Theorem C17_errors_designate_their_place : forall OR N opt defs,
  opt_array_must_have_items opt = false -> opt_obj_array_type_check opt = false ->
  forall W : schema -> Prop,
  (forall s, W s -> kids W s) ->
  (forall s n t, W s -> s_ref s = Some n -> lookup_def defs n = Some t -> W t) ->
  (forall s, W s -> s_ref s = None -> located_local s) ->
  forall fuel s p d r, W s -> sv_validate OR N opt defs fuel s p p d = Ok r ->
  forall e, In e (r_errs r) ->
  m_name e = [] \/ path_is_empty p = true \/ exists t, m_name e = p ++ t /\ walks d t.
Proof.
  intros OR N opt defs H1 H2 W Hk Hr Hl fuel s p d r Ws Hv e He.
  pose proof (errors_designate_their_place OR N opt defs H1 H2 W Hk Hr Hl fuel s p d Ws) as H. rewrite Hv in H. exact (H e He).
Qed.
Print Assumptions C17_errors_designate_their_place.

(* the class is decidable (every schema below the root and the definitions is inspected); evaluated on every case of the run *)
Theorem C17_decided_errors_designate_their_place : forall OR N opt defs,
  opt_array_must_have_items opt = false -> opt_obj_array_type_check opt = false ->
  forall n root, located_class_b defs n root = true ->
  forall fuel p d r, sv_validate OR N opt defs fuel root p p d = Ok r ->
  forall e, In e (r_errs r) ->
  m_name e = [] \/ path_is_empty p = true \/ exists t, m_name e = p ++ t /\ walks d t.
Proof.
  intros OR N opt defs H1 H2 n root Hc fuel p d r Hv e He.
  pose proof (decided_errors_designate_their_place OR N opt defs H1 H2 n root Hc fuel p d) as H. rewrite Hv in H. exact (H e He).
Qed.
Print Assumptions C17_decided_errors_designate_their_place.

Definition no_oracles17 : oracles :=
  {| o_rune_len := fun _ => 0; o_re_ok := fun _ => true; o_re_match := fun _ _ => false; o_fmt_known := fun _ => false; o_fmt_check := fun _ _ => true |}.
Definition opt0 : options :=
  {| opt_obj_array_type_check := false; opt_array_must_have_items := false; opt_skip_schemata := false; opt_tails := fun k => (k, -1) |}.
Definition z_ops17 : numops :=
  {| n_le := Z.leb; n_lt := Z.ltb; n_eq := Z.eqb; n_is_int := fun _ => true;
     n_mult_of := fun a f => if f <=? 0 then MNotPositive else if Z.eqb (a mod f) 0 then MOk else MNotMultiple;
     n_of_int := fun z => z; n_to_int64 := fun z => z; n_to_uint64 := fun z => z; n_exact_int := fun z => Some z; n_fits_f32 := fun _ => true |}.
(* non-vacuity: {"properties":{"a":{"items":[{"type":"string"}],"additionalItems":{"required":[50]}}}} names "root.a.1.50"
   for {"a":["x", {}]}: a walk into the value through a member, an element and a missing required member *)
Definition c17_schema : schema :=
  set_props [(40, set_items_tuple (Some [set_types [k_string] empty_schema])
                    (set_items_present true (set_add_items (Some (true, Some (set_required [50] empty_schema))) empty_schema)))] empty_schema.
Definition c17_data : goval := VObj 1 [(40, VArr 2 [VStr 9; VObj 3 []])].
Example C17_located_somewhere :
  located_class_b [] 6 c17_schema = true /\
  exists r, sv_validate no_oracles17 z_ops17 opt0 [] 8 c17_schema [SRoot 7] [SRoot 7] c17_data = Ok r /\
            map m_name (r_errs r) = [[SRoot 7; SDot 40; SIdx 1; SDot 50]] /\
            walks c17_data [SDot 40; SIdx 1; SDot 50].
Proof.
  split; [vm_compute; reflexivity|]. eexists. split; [vm_compute; reflexivity|]. split; [reflexivity|].
  cbn. right. eexists. split; [left; reflexivity|]. split; [lia|]. left. reflexivity.
Qed.
