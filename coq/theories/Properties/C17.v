(* C17 - Every rejection is explained by well-formed, correctly located errors. *)
From Coq Require Import List ZArith Bool.
From Verif Require Import Base.Sx Base.GoVal Schema.Ast Schema.Pipeline Schema.PipelineFacts Schema.PipelineNames.
Import ListNotations.
Open Scope Z_scope.

(* an invalid verdict always carries at least one error and a valid one none *)
Theorem C17_valid_iff_no_error : forall r, r_valid r = true <-> r_errs r = [].
Proof. exact r_valid_nil. Qed.
Print Assumptions C17_valid_iff_no_error.

(* the one-shot entry point returns nil, or exactly the errors of the underlying result *)
Theorem C17_oneshot_exact : forall OR N opt defs fuel s d,
  match sv_validate OR N opt defs fuel s [SRoot 0] [SRoot 0] d with
  | Ok r => against_schema OR N opt defs fuel s d = Ok (if r_valid r then None else Some (r_errs r))
  | Panic site => against_schema OR N opt defs fuel s d = Panic site
  | OutOfFuel => against_schema OR N opt defs fuel s d = OutOfFuel
  end.
Proof. exact against_schema_spec. Qed.
Print Assumptions C17_oneshot_exact.

(* message-keyed de-duplication: adding errors never creates a duplicate and never loses a message *)
Theorem C17_add_errors_no_duplicates : forall es l, NoDup l -> NoDup (add_errs l es).
Proof. exact add_errs_NoDup. Qed.
Print Assumptions C17_add_errors_no_duplicates.

Theorem C17_add_errors_membership : forall es l x, In x (add_errs l es) <-> In x l \/ In x es.
Proof. exact add_errs_In. Qed.
Print Assumptions C17_add_errors_membership.

(* merging can only turn a valid result invalid when an operand is invalid *)
Theorem C17_merge_valid : forall r o,
  r_valid (merge r o) = r_valid r && match o with Some o => r_valid o | None => true end.
Proof. exact r_valid_merge. Qed.
Print Assumptions C17_merge_valid.

(* every error of a result is about the instance the validator was given: its name is empty (two messages carry no
   name) or extends the validator's path - for every schema, value, oracle, numeric implementation, environment and
   fuel, with the two Swagger pre-checks off (they name the keyword, not the place) *)
Theorem C17_names_extend_the_path : forall OR N opt defs,
  opt_array_must_have_items opt = false -> opt_obj_array_type_check opt = false ->
  forall fuel s p d r, sv_validate OR N opt defs fuel s p p d = Ok r ->
  forall e, In e (r_errs r) -> m_name e = [] \/ extends p (m_name e).
Proof.
  intros OR N opt defs H1 H2 fuel s p d r Hr e He.
  pose proof (names_extend_the_path OR N opt defs H1 H2 fuel s p p d (extends_refl p)) as H. rewrite Hr in H. exact (H e He).
Qed.
Print Assumptions C17_names_extend_the_path.
