(* C01 - Schema validation verdicts agree with JSON Schema draft 4.
   Theorems only; proofs are [exact] of lemmas proved elsewhere, or vm_compute witnesses. *)
From Coq Require Import List ZArith Bool Lia.
From Verif Require Import Base.Sx Base.GoVal Base.F64 Schema.Ast Schema.Build Schema.Pipeline Schema.Draft4
  Schema.Classes Schema.PipelineFacts Schema.PipelineTerm Schema.AgreementData Schema.Agreement Schema.AgreementRef Schema.AgreementDec Schema.AgreementFlocq Schema.PipelineTermRec Schema.PipelineTermDec Schema.AgreementRec.
Import ListNotations.
Open Scope Z_scope.

(* The one-shot entry point returns nil exactly when the validator object's result is valid, and otherwise
   the errors of that very result. *)
Theorem C01_oneshot_same_verdict : forall OR N opt defs fuel s d,
  match sv_validate OR N opt defs fuel s [SRoot 0] [SRoot 0] d with
  | Ok r => against_schema OR N opt defs fuel s d = Ok (if r_valid r then None else Some (r_errs r))
  | Panic site => against_schema OR N opt defs fuel s d = Panic site
  | OutOfFuel => against_schema OR N opt defs fuel s d = OutOfFuel
  end.
Proof. exact against_schema_spec. Qed.
Print Assumptions C01_oneshot_same_verdict.

(* Validity of combined results: a merge is valid iff every operand is (used by every keyword group). *)
Theorem C01_merge_valid_iff_all_valid : forall r o,
  r_valid (merge r o) = r_valid r && match o with Some o => r_valid o | None => true end.
Proof. exact r_valid_merge. Qed.
Print Assumptions C01_merge_valid_iff_all_valid.

(* ---- the full statement is false of the faithful model: one witness per recorded finding class ---- *)

Definition no_oracles : oracles :=
  {| o_rune_len := fun _ => 0; o_re_ok := fun _ => true; o_re_match := fun _ _ => false;
     o_fmt_known := fun f => Z.eqb f 40; o_fmt_check := fun _ _ => true |}.
Definition opt0 : options :=
  {| opt_obj_array_type_check := false; opt_array_must_have_items := false; opt_skip_schemata := false;
     opt_tails := fun k => (k, -1) |}.

Definition disagrees (s : schema) (d : goval) : Prop :=
  exists r b, sv_validate no_oracles flocq_ops opt0 [] 8 s [SRoot 0] [SRoot 0] d = Ok r /\
              d4 no_oracles flocq_ops [] 8 s d = Some b /\ r_valid r <> b.

(* {"allOf":[{"type":"string"}]} accepts null *)
Theorem C01_full_refuted_nil_under_composition :
  disagrees (set_all_of [set_types [k_string] empty_schema] empty_schema) VNil.
Proof. eexists; eexists; split; [vm_compute; reflexivity|split; [vm_compute; reflexivity|vm_compute; discriminate]]. Qed.
Print Assumptions C01_full_refuted_nil_under_composition.

(* {"additionalProperties":false} accepts {"$schema":true} *)
Theorem C01_full_refuted_schema_id_exempt :
  disagrees (set_add_props (Some (false, None)) empty_schema) (VObj 0 [(k_dollar_schema, VBool true)]).
Proof. eexists; eexists; split; [vm_compute; reflexivity|split; [vm_compute; reflexivity|vm_compute; discriminate]]. Qed.
Print Assumptions C01_full_refuted_schema_id_exempt.

(* {"required":["a"],"properties":{"a":{"default":true}}} accepts {} (key 32 = "a") *)
Theorem C01_full_refuted_required_by_default :
  disagrees (set_required [32] (set_props [(32, set_default (Some (VBool true)) empty_schema)] empty_schema)) (VObj 0 []).
Proof. eexists; eexists; split; [vm_compute; reflexivity|split; [vm_compute; reflexivity|vm_compute; discriminate]]. Qed.
Print Assumptions C01_full_refuted_required_by_default.

(* {"type":"object","format":"date"} accepts a string (format 40 = "date", string 33) *)
Theorem C01_full_refuted_type_format_shortcut :
  disagrees (set_types [k_object] (set_format 40 empty_schema)) (VStr 33).
Proof. eexists; eexists; split; [vm_compute; reflexivity|split; [vm_compute; reflexivity|vm_compute; discriminate]]. Qed.
Print Assumptions C01_full_refuted_type_format_shortcut.

(* {"items":[],"additionalItems":false} accepts [true] *)
Theorem C01_full_refuted_empty_tuple :
  disagrees (set_items_present true (set_items_tuple (Some []) (set_add_items (Some (false, None)) empty_schema)))
            (VArr 0 [VBool true]).
Proof. eexists; eexists; split; [vm_compute; reflexivity|split; [vm_compute; reflexivity|vm_compute; discriminate]]. Qed.
Print Assumptions C01_full_refuted_empty_tuple.

(* {"type":"integer"} accepts 500000000.5 (bits 0x41BDCD6500800000): the binary64 operations of the code differ
   from exact arithmetic (integer tolerance of swag.IsFloat64AJSONInteger) *)
Theorem C01_full_refuted_numeric_inexact :
  exists r b, sv_validate no_oracles flocq_ops opt0 [] 8 (set_types [k_integer] empty_schema) [SRoot 0] [SRoot 0]
                          (VFlt false 0x41BDCD6500800000) = Ok r /\
              d4 no_oracles (exact_ops []) [] 8 (set_types [k_integer] empty_schema) (VFlt false 0x41BDCD6500800000) = Some b /\
              r_valid r <> b.
Proof. eexists; eexists; split; [vm_compute; reflexivity|split; [vm_compute; reflexivity|vm_compute; discriminate]]. Qed.
Print Assumptions C01_full_refuted_numeric_inexact.

(* non-vacuity of agreement: a combination no fixture contains, on which model and draft 4 agree (both reject):
   {"items":[{},{}],"additionalItems":{"type":"integer"}} with [null,null,null,"x"] *)
Example C01_example_tuple_additional :
  let s := set_items_present true (set_items_tuple (Some [empty_schema; empty_schema])
             (set_add_items (Some (true, Some (set_types [k_integer] empty_schema))) empty_schema)) in
  let d := VArr 0 [VNil; VNil; VNil; VStr 33] in
  (match sv_validate no_oracles flocq_ops opt0 [] 8 s [SRoot 0] [SRoot 0] d with Ok r => Some (r_valid r) | _ => None end,
   d4 no_oracles flocq_ops [] 8 s d) = (Some false, Some false).
Proof. vm_compute. reflexivity. Qed.

(* ---- and it holds on a fragment ---- *)

(* On schemas of the class [clean] - type, enum, numeric and string keywords, formats (next to a numeric type, or next to a
   type list that accepts strings - and arrays, when [allow_arr] lets the data hold arrays: elsewhere the type.go:200
   shortcut lives, a recorded finding), items (one or positional) with additionalItems, uniqueItems, properties (a default
   only on members that are not required) / required / additionalProperties / min- and maxProperties, dependencies, allOf,
   anyOf, oneOf, not, patternProperties (patterns that compile), at every depth; no nullable, empty tuples, nor a schema next to
   an additionalItems / additionalProperties that is false -
   and JSON data of the class [jd] - objects with distinct members none of which is called "$schema", "id" or "headers";
   null anywhere in the data when [allow_null] is set, in which case the schema must be free of allOf / anyOf / oneOf / not at
   every level (the null-under-composition finding lives there); arrays anywhere when [allow_arr] is set - the verdict of the
   pipeline is the draft-4 verdict: for every oracle, every option set with the two Swagger pre-checks off, every environment,
   and every numeric implementation whose order is total and whose equality is symmetric on the numbers involved.  The excluded
   shapes are where the recorded finding classes live, plus the keywords whose agreement is not proved yet (checked by the tie
   on every run). *)
Theorem C01_agreement_on_the_clean_fragment_partial :
  forall (fin : f64 -> Prop) (allow_null allow_arr : bool) OR N opt defs,
  opt_array_must_have_items opt = false -> opt_obj_array_type_check opt = false ->
  (forall a b, fin a -> fin b -> n_lt N a b = negb (n_le N b a)) ->
  (forall a b, fin a -> fin b -> n_eq N a b = n_eq N b a) ->
  forall n fuel s, clean fin allow_null allow_arr OR n s -> (n < fuel)%nat -> forall p q d, jd fin allow_null allow_arr d ->
  exists r, sv_validate OR N opt defs fuel s p q d = Ok r /\ d4 OR N defs fuel s d = Some (r_valid r).
Proof. exact clean_fragment_agrees. Qed.
Print Assumptions C01_agreement_on_the_clean_fragment_partial.

(* ... and through references: a node may be a chain of at most K references ending in a node of the fragment (siblings
   of $ref are ignored by both sides); definitions that are recursive have no finite level and stay outside *)
Theorem C01_agreement_with_references_partial :
  forall (fin : f64 -> Prop) (allow_null allow_arr : bool) OR N opt defs (K : nat),
  opt_array_must_have_items opt = false -> opt_obj_array_type_check opt = false ->
  (forall a b, fin a -> fin b -> n_lt N a b = negb (n_le N b a)) ->
  (forall a b, fin a -> fin b -> n_eq N a b = n_eq N b a) ->
  forall n f1 f2 s, cleanr fin allow_null allow_arr OR defs K n s -> (n + K < f1)%nat -> (n * S K <= f2)%nat ->
  forall p q d, jd fin allow_null allow_arr d ->
  exists r, sv_validate OR N opt defs f1 s p q d = Ok r /\ d4 OR N defs f2 s d = Some (r_valid r).
Proof. exact agreement_with_references. Qed.
Print Assumptions C01_agreement_with_references_partial.

Theorem C01_fragment_decision_with_references_is_sound : forall fin_b allow_null allow_arr OR defs K n s,
  cleanr_b fin_b allow_null allow_arr OR defs K n s = true -> cleanr (finP fin_b) allow_null allow_arr OR defs K n s.
Proof. exact cleanr_b_sound. Qed.
Print Assumptions C01_fragment_decision_with_references_is_sound.

(* the instance the correspondence run executes: Flocq binary64, finite numbers. Whenever the decision procedure says
   "inside" (the count is in the evidence of every run), the model's verdict is the draft-4 verdict over binary64 *)
Theorem C01_agreement_for_the_binary64_model : forall allow_null allow_arr OR opt defs K n f1 f2 s fuel d,
  opt_array_must_have_items opt = false -> opt_obj_array_type_check opt = false ->
  cleanr_b f_finite allow_null allow_arr OR defs K n s = true -> jd_b f_finite allow_null allow_arr fuel d = true ->
  (n + K < f1)%nat -> (n * S K <= f2)%nat -> forall p q,
  exists r, sv_validate OR flocq_ops opt defs f1 s p q d = Ok r /\ d4 OR flocq_ops defs f2 s d = Some (r_valid r).
Proof.
  intros an aa OR opt defs K n f1 f2 s fuel d H1 H2 Hc Hd Hf1 Hf2 p q.
  apply (agreement_with_references (finP f_finite) an aa OR flocq_ops opt defs K H1 H2 flocq_order_total flocq_eq_sym n f1 f2 s
           (cleanr_b_sound f_finite an aa OR defs K n s Hc) Hf1 Hf2 p q d (jd_b_sound f_finite an aa fuel d Hd)).
Qed.
Print Assumptions C01_agreement_for_the_binary64_model.

(* the fragment is decidable: the procedure the harness evaluates on every case (its count is in the evidence) is sound *)
Theorem C01_fragment_decision_is_sound : forall fin_b allow_null allow_arr OR n s fuel d,
  clean_b fin_b allow_null allow_arr OR n s = true -> jd_b fin_b allow_null allow_arr fuel d = true ->
  clean (finP fin_b) allow_null allow_arr OR n s /\ jd (finP fin_b) allow_null allow_arr d.
Proof. intros fin_b an aa OR n s fuel d H1 H2. split; [apply clean_b_sound; exact H1 | apply (jd_b_sound fin_b an aa fuel d H2)]. Qed.
Print Assumptions C01_fragment_decision_is_sound.

(* non-vacuity: numbers read as integers, {"type":"object","required":[50],"properties":{50:{"type":"number","maximum":7}},
   "additionalProperties":{"anyOf":[{"type":"string"},{"items":{"type":"boolean"}}]}} and a matching instance *)
Definition z_ops : numops :=
  {| n_le := Z.leb; n_lt := Z.ltb; n_eq := Z.eqb; n_is_int := fun _ => true;
     n_mult_of := fun a f => if f <=? 0 then MNotPositive else if Z.eqb (a mod f) 0 then MOk else MNotMultiple;
     n_of_int := fun z => z; n_to_int64 := fun z => z; n_to_uint64 := fun z => z; n_exact_int := fun z => Some z; n_fits_f32 := fun _ => true |}.
Definition c01_schema : schema :=
  set_types [k_object] (set_required [50] (set_props [(50, set_types [k_number] (set_maximum (Some 7) empty_schema))]
    (set_add_props (Some (true, Some (set_any_of [set_types [k_string] empty_schema;
                                                 set_items_one (Some (set_types [k_boolean] empty_schema)) empty_schema] empty_schema))) empty_schema))).
Definition c01_data : goval := VObj 1 [(50, VFlt false 5); (51, VArr 2 [VBool true])].

Example C01_fragment_is_inhabited :
  clean (finP (fun _ => true)) false true no_oracles 4 c01_schema /\ jd (finP (fun _ => true)) false true c01_data /\
  (forall a b, finP (fun _ => true) a -> finP (fun _ => true) b -> n_lt z_ops a b = negb (n_le z_ops b a)) /\
  exists r, sv_validate no_oracles z_ops opt0 [] 5 c01_schema [SRoot 0] [SRoot 0] c01_data = Ok r /\ r_valid r = true.
Proof.
  split; [apply clean_b_sound; vm_compute; reflexivity|].
  split; [apply (jd_b_sound (fun _ => true) false true 5); vm_compute; reflexivity|].
  split; [intros a b _ _; cbn; apply Z.ltb_antisym|].
  eexists. split; [vm_compute; reflexivity | reflexivity].
Qed.

(* formats next to a string type: {"type":"string","format":F} is inside the fragment for data without arrays, and outside
   when the data may hold arrays (an array would skip the type check: finding class type-format-shortcut) *)
Example C01_string_format_in_fragment :
  clean_b (fun _ => true) false false no_oracles 2 (set_types [k_string] (set_format 77 empty_schema)) = true /\
  clean_b (fun _ => true) false true no_oracles 2 (set_types [k_string] (set_format 77 empty_schema)) = false /\
  clean_b (fun _ => true) false true no_oracles 2 (set_types [k_string; k_array] (set_format 77 empty_schema)) = true.
Proof. vm_compute. repeat split. Qed.

(* ---- recursive definitions ---- *)

(* Let W be a set of schemas closed under "sub-schema of" and "target of the reference of" whose members that are not
   references are of the clean class, with a rank, bounded by R, that strictly decreases along the edges that keep the value
   ($ref -> target, allOf / anyOf / oneOf / not members, schema dependencies): every cycle of references passes through items,
   properties or the additional keywords.  Then on every JSON value of the data class the verdict of the pipeline is the
   draft-4 verdict, once both fuels exceed depth(value) * (R + 1) + rank(schema) - by lexicographic induction on (depth of
   the value, rank of the schema).  Definitions such as a tree or a linked list are inside; so is the Swagger 2.0 schema's
   shape of recursion.  The composition cycle of the C06 finding has no rank. *)
Theorem C01_agreement_through_recursive_definitions_partial :
  forall (fin : f64 -> Prop) (allow_null allow_arr : bool) OR N opt defs,
  opt_array_must_have_items opt = false -> opt_obj_array_type_check opt = false ->
  (forall a b, fin a -> fin b -> n_lt N a b = negb (n_le N b a)) ->
  (forall a b, fin a -> fin b -> n_eq N a b = n_eq N b a) ->
  forall (W : schema -> Prop) (rank : schema -> nat) (R : nat), guarded defs W rank R ->
  (forall s, W s -> s_ref s = None -> local_clean0 fin OR s) ->
  (* the one value-dependent condition - where a format sits next to a non-numeric type list, the value that level is applied
     to is one the list accepts (elsewhere the type.go:200 shortcut, a recorded finding) - as a relation closed under the visits
     of the validation *)
  forall F : schema -> goval -> Prop,
  (forall s n t d, F s d -> s_ref s = Some n -> lookup_def defs n = Some t -> F t d) ->
  (forall t d, F t d -> s_ref t = None -> fmt_fits t d) ->
  (forall t d c v, F t d -> s_ref t = None -> app_g OR t d c v -> F c v) ->
  (forall t d c, F t d -> s_ref t = None -> In c (uk t) -> F c d) ->
  forall f1 f2 s d, W s -> F s d -> jd fin allow_null allow_arr d ->
  (goval_depth d * S R + rank s < f1)%nat -> (goval_depth d * S R + rank s < f2)%nat ->
  forall p q, exists r, sv_validate OR N opt defs f1 s p q d = Ok r /\ d4 OR N defs f2 s d = Some (r_valid r).
Proof. exact guarded_fragment_agrees. Qed.
Print Assumptions C01_agreement_through_recursive_definitions_partial.

(* the hypotheses are decidable ([cleang_b]: the rank of Schema/PipelineTermDec.v exists, every schema below the root and the
   definitions passes the local test, and [fits_b] follows the visits of the validation on the value); the procedure is
   evaluated on every case of the run *)
Theorem C01_recursive_fragment_decision_is_sound :
  forall fin_b allow_null allow_arr OR N opt defs,
  opt_array_must_have_items opt = false -> opt_obj_array_type_check opt = false ->
  (forall a b, finP fin_b a -> finP fin_b b -> n_lt N a b = negb (n_le N b a)) ->
  (forall a b, finP fin_b a -> finP fin_b b -> n_eq N a b = n_eq N b a) ->
  forall K R n root f1 f2 d,
  cleang_b fin_b OR defs K R n root d = true -> jd (finP fin_b) allow_null allow_arr d ->
  (goval_depth d * S R + urank defs K root < f1)%nat -> (goval_depth d * S R + urank defs K root < f2)%nat ->
  forall p q, exists r, sv_validate OR N opt defs f1 root p q d = Ok r /\ d4 OR N defs f2 root d = Some (r_valid r).
Proof. exact decided_fragment_agrees. Qed.
Print Assumptions C01_recursive_fragment_decision_is_sound.

(* non-vacuity: a tree, definitions.tree = {"type":"object","properties":{"value":{"type":"number","maximum":7},
   "kids":{"type":"array","items":{"$ref":"#/definitions/tree"}}},"additionalProperties":false}, root {"$ref": tree} *)
Definition c01_tree : schema :=
  set_types [k_object]
    (set_props [(50, set_types [k_number] (set_maximum (Some 7) empty_schema));
                (51, set_types [k_array] (set_items_one (Some (set_ref (Some 60) empty_schema)) empty_schema))]
       (set_add_props (Some (false, None)) empty_schema)).
Definition c01_tree_defs : env := [(60, c01_tree)].
Definition c01_tree_root : schema := set_ref (Some 60) empty_schema.
Definition c01_tree_data : goval :=
  VObj 1 [(50, VFlt false 5); (51, VArr 2 [VObj 3 [(50, VFlt false 9)]; VObj 4 [(51, VArr 5 [])]])].
Example C01_recursive_fragment_is_inhabited :
  cleang_b (fun _ => true) no_oracles c01_tree_defs 8 1 6 c01_tree_root c01_tree_data = true /\
  jd_b (fun _ => true) false true 6 c01_tree_data = true /\
  (goval_depth c01_tree_data * 2 + urank c01_tree_defs 8 c01_tree_root < 20)%nat /\
  (exists r, sv_validate no_oracles z_ops opt0 c01_tree_defs 20 c01_tree_root [SRoot 0] [SRoot 0] c01_tree_data = Ok r /\ r_valid r = false) /\
  d4 no_oracles z_ops c01_tree_defs 20 c01_tree_root c01_tree_data = Some false.
Proof.
  split; [vm_compute; reflexivity|]. split; [vm_compute; reflexivity|]. split; [vm_compute; lia|].
  split; [eexists; split; [vm_compute; reflexivity | reflexivity] | vm_compute; reflexivity].
Qed.

(* the instance the correspondence run executes *)
Theorem C01_recursive_agreement_for_the_binary64_model : forall allow_null allow_arr OR opt defs K R n root f1 f2 fuel d,
  opt_array_must_have_items opt = false -> opt_obj_array_type_check opt = false ->
  cleang_b f_finite OR defs K R n root d = true -> jd_b f_finite allow_null allow_arr fuel d = true ->
  (goval_depth d * S R + urank defs K root < f1)%nat -> (goval_depth d * S R + urank defs K root < f2)%nat ->
  forall p q, exists r, sv_validate OR flocq_ops opt defs f1 root p q d = Ok r /\ d4 OR flocq_ops defs f2 root d = Some (r_valid r).
Proof.
  intros an aa OR opt defs K R n root f1 f2 fuel d H1 H2 Hc Hd Hf1 Hf2 p q.
  apply (decided_fragment_agrees f_finite an aa OR flocq_ops opt defs H1 H2 flocq_order_total flocq_eq_sym K R n root f1 f2 d Hc
           (jd_b_sound f_finite an aa fuel d Hd) Hf1 Hf2).
Qed.
Print Assumptions C01_recursive_agreement_for_the_binary64_model.

(* patternProperties are inside the fragment when every pattern compiles: {"patternProperties":{"^x-":{"type":"number"}},
   "additionalProperties":false} with an oracle that knows the pattern *)
Definition c01_pat_oracles : oracles :=
  {| o_rune_len := fun _ => 0; o_re_ok := fun _ => true; o_re_match := fun pat k => Z.eqb pat 70 && Z.eqb k 71;
     o_fmt_known := fun _ => false; o_fmt_check := fun _ _ => true |}.
Definition c01_pat_schema : schema :=
  set_pat_props [(70, set_types [k_number] empty_schema)] (set_add_props (Some (false, None)) empty_schema).
Example C01_pattern_properties_in_fragment :
  clean_b (fun _ => true) false true c01_pat_oracles 3 c01_pat_schema = true /\
  (exists r, sv_validate c01_pat_oracles z_ops opt0 [] 5 c01_pat_schema [SRoot 0] [SRoot 0] (VObj 1 [(71, VFlt false 3)]) = Ok r /\ r_valid r = true) /\
  (exists r, sv_validate c01_pat_oracles z_ops opt0 [] 5 c01_pat_schema [SRoot 0] [SRoot 0] (VObj 1 [(71, VStr 9)]) = Ok r /\ r_valid r = false) /\
  (exists r, sv_validate c01_pat_oracles z_ops opt0 [] 5 c01_pat_schema [SRoot 0] [SRoot 0] (VObj 1 [(72, VFlt false 3)]) = Ok r /\ r_valid r = false).
Proof.
  split; [vm_compute; reflexivity|].
  repeat split; (eexists; split; [vm_compute; reflexivity | reflexivity]).
Qed.
