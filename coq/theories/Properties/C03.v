(* C03 - Spec validation enforces exactly the documented extra rules.
   The model of the rules (Spec/Rules.v, tied to Go on every run by the fired-rule projection) reports no error exactly
   when the documented condition of every modelled rule holds, for both continue-on-errors settings and both
   path-uniqueness settings.  Outside the model: arrays declare items, references resolve, duplicate inherited
   properties, circular ancestry, parameter patterns (decided by the document oracle of the check only). *)
From Coq Require Import List ZArith Bool.
From Verif Require Import Base.Sx Base.GoVal Spec.Rules Spec.RulesFacts.
Import ListNotations.
Open Scope Z_scope.

(* no error <-> unique operation ids, every operation in order (op_ok), no overlap when path uniqueness is on, every
   required name defined, the paths object present and free of "{}" *)
Theorem C03_no_error_exactly_when_the_rules_hold : forall RO cont strict a,
  all_rules RO cont strict a = [] <-> spec_ok RO strict a.
Proof. exact all_rules_exact. Qed.
Print Assumptions C03_no_error_exactly_when_the_rules_hold.

(* the early stop of continue-on-errors = false only drops errors *)
Theorem C03_early_stop_reports_less : forall RO strict a,
  incl (all_rules RO false strict a) (all_rules RO true strict a).
Proof. exact early_stop_reports_less. Qed.
Print Assumptions C03_early_stop_reports_less.

Theorem C03_unique_operation_ids : forall a, rule_opids a = [] <-> NoDup (named_ids a).
Proof. exact rule_opids_exact. Qed.
Print Assumptions C03_unique_operation_ids.

(* per operation: unique name + location, path parameters required, at most one body and never with form data,
   placeholders unique and matching the declared path parameters one-to-one *)
Theorem C03_operation_rules : forall o, rule_operation o = [] <-> op_ok o.
Proof. exact rule_operation_exact. Qed.
Print Assumptions C03_operation_rules.

Theorem C03_no_overlapping_paths : forall ops, overlaps ops [] = [] <-> NoDup (map op_key ops).
Proof. exact overlaps_exact. Qed.
Print Assumptions C03_no_overlapping_paths.

(* overlap compares paths up to the names in their placeholders *)
Theorem C03_overlap_ignores_parameter_names : forall pre m n post,
  no_brace m -> m <> [] -> no_slash m -> no_brace n -> n <> [] -> no_slash n ->
  strip_params (pre ++ braces m ++ post) = strip_params (pre ++ braces n ++ post).
Proof. exact strip_params_ignores_names. Qed.
Print Assumptions C03_overlap_ignores_parameter_names.

Theorem C03_required_is_defined : forall RO name defn s,
  snd (required_property RO name defn s) = true <-> defined RO name s.
Proof. exact required_property_verdict. Qed.
Print Assumptions C03_required_is_defined.

Theorem C03_required_definitions : forall RO cont defs,
  rule_required RO cont defs = [] <-> forall d, In d defs -> def_ok RO d.
Proof. exact rule_required_exact. Qed.
Print Assumptions C03_required_definitions.

(* two placeholders in one path segment are both extracted, and nothing else is *)
Theorem C03_two_placeholders_in_one_segment : forall a m c n b,
  no_lbrace a -> no_lbrace c -> no_brace m -> no_brace n -> m <> [] -> n <> [] ->
  placeholders (a ++ braces m ++ c ++ braces n ++ b) = braces m :: braces n :: placeholders b.
Proof. exact two_placeholders_in_one_segment. Qed.
Print Assumptions C03_two_placeholders_in_one_segment.

Theorem C03_placeholders_are_well_formed : forall fuel s p,
  In p (find_all fuel s) -> exists m, p = braces m /\ m <> [] /\ no_brace m.
Proof. exact placeholders_shape. Qed.
Print Assumptions C03_placeholders_are_well_formed.

(* non-vacuity: GET /pets/{id}/photos/{n}-{size} with its three required path parameters, a body, and a definition whose
   required name is met through additionalProperties: true, satisfies every rule ... *)
Definition ro0 : roracle := {| ro_ok := fun _ => true; ro_match := fun _ _ => false |}.
Definition path0 : bytes := [47; 112; 47; 123; 105; 125; 47; 123; 110; 125; 45; 123; 115; 125].   (* /p/{i}/{n}-{s} *)
Definition op0 : aop :=
  {| ao_method := 40; ao_path := path0; ao_pathid := 41; ao_opid := 42;
     ao_declared := [(43, k_path); (44, k_path); (45, k_path); (46, k_body)];
     ao_merged := [(43, k_path, true, [105]); (44, k_path, true, [110]); (45, k_path, true, [115]); (46, k_body, false, [98])] |}.
Definition spec0 : aspec :=
  {| as_paths_nil := false; as_paths_empty := false; as_paths := [path0]; as_ops := [op0]; as_ids := [42];
     as_defs := [{| ad_name := 50; ad_required := [51]; ad_schema := SReq [] [] (Some (true, None)) |}] |}.

Example C03_rules_hold_somewhere : spec_ok ro0 true spec0.
Proof. apply (all_rules_exact ro0 true true). vm_compute. reflexivity. Qed.

(* ... and dropping the declaration of {n} breaks it, in every configuration *)
Definition op1 : aop :=
  {| ao_method := 40; ao_path := path0; ao_pathid := 41; ao_opid := 42;
     ao_declared := [(43, k_path); (45, k_path)];
     ao_merged := [(43, k_path, true, [105]); (45, k_path, true, [115])] |}.
Definition spec1 : aspec :=
  {| as_paths_nil := false; as_paths_empty := false; as_paths := [path0]; as_ops := [op1]; as_ids := [42]; as_defs := [] |}.

Example C03_broken_rule_is_reported : forall cont strict, ~ spec_ok ro0 strict spec1 /\ all_rules ro0 cont strict spec1 <> [].
Proof.
  assert (H : forall cont strict, all_rules ro0 cont strict spec1 <> []).
  { intros cont strict. destruct cont, strict; vm_compute; discriminate. }
  intros cont strict. split; [|apply H]. intros Hok. apply (all_rules_exact ro0 cont strict) in Hok. exact (H cont strict Hok).
Qed.
