(* C08 - Long-lived validators are stateless: reuse gives identical results. *)
From Coq Require Import List ZArith Bool Permutation.
From Verif Require Import Base.Sx Base.GoVal Schema.Ast Schema.Pipeline Schema.Stateless.
Import ListNotations.
Open Scope Z_scope.

(* a validator built without recycling is unchanged by any history of validations, and the n-th call returns what a
   freshly built validator returns on that value, whatever was validated before *)
Theorem C08_any_history : forall OR N opt defs fuel s p ds,
  vo_history OR N opt defs fuel (vo_new s p false) ds =
  (vo_new s p false, map (fun d => sv_validate OR N opt defs fuel s p p d) ds).
Proof. exact stateless_history. Qed.
Print Assumptions C08_any_history.

Theorem C08_repetition : forall OR N opt defs fuel s p d,
  snd (vo_history OR N opt defs fuel (vo_new s p false) [d; d]) =
  [sv_validate OR N opt defs fuel s p p d; sv_validate OR N opt defs fuel s p p d].
Proof. exact repeating_a_call_gives_the_same. Qed.
Print Assumptions C08_repetition.

(* the mechanism is the recycling option: with it the validator is single use *)
Theorem C08_recycled_validators_are_single_use : forall OR N opt defs fuel s p d d',
  snd (vo_history OR N opt defs fuel (vo_new s p true) [d; d']) = [sv_validate OR N opt defs fuel s p p d; Panic P_USED_TWICE].
Proof. exact recycled_is_single_use. Qed.
Print Assumptions C08_recycled_validators_are_single_use.

(* message sets and verdicts do not depend on the order in which a map was iterated *)
Theorem C08_message_set_order_independent : forall l es es',
  Permutation es es' -> forall x, In x (add_errs l es) <-> In x (add_errs l es').
Proof. exact add_errs_order_independent. Qed.
Print Assumptions C08_message_set_order_independent.

Theorem C08_verdict_order_independent : forall l es es',
  Permutation es es' -> (add_errs l es = [] <-> add_errs l es' = []).
Proof. exact add_errs_verdict_order_independent. Qed.
Print Assumptions C08_verdict_order_independent.
