(* C02 - An accepted Swagger document always satisfies the Swagger 2.0 JSON schema.
   Partial: the chain is  accepted => first pass (the Swagger 2.0 schema run by the L1 pipeline over the raw
   document) reported nothing  (proved here, for the regenerated schema)  => draft-4 valid  (the soundness half of C01,
   proved so far only outside the recorded finding classes; checked on every document by the L0 oracle). *)
From Coq Require Import List ZArith Bool.
From Verif Require Import Base.Sx Base.GoVal Base.F64 Schema.Ast Schema.Pipeline Schema.AgreementDec Schema.AgreementRec Schema.PipelineTermDec Gen.Swagger20 Result.ResultModel Spec.Orchestration
  Spec.Swagger20Facts.
Import ListNotations.
Open Scope Z_scope.

(* the schema the code embeds today decodes into the model and all its references resolve: the first pass cannot hit the
   documented invalid-schema panic *)
Theorem C02_swagger20_schema_is_modelled : match sw_parts with Some _ => true | None => false end = true.
Proof. exact swagger20_decodes. Qed.
Print Assumptions C02_swagger20_schema_is_modelled.

Theorem C02_swagger20_references_resolve : sw_closed = true.
Proof. exact swagger20_references_resolve. Qed.
Print Assumptions C02_swagger20_references_resolve.

(* any document that the first pass rejects is reported with at least one error, with or without continue-on-errors *)
Theorem C02_first_pass_errors_are_kept : forall cont first rest m,
  In m (errs first) -> In m (errs (fst (validate_spec cont (first :: rest)))).
Proof. exact first_pass_errors_are_kept. Qed.
Print Assumptions C02_first_pass_errors_are_kept.

Theorem C02_accepted_implies_first_pass_valid : forall cont first rest,
  errs (fst (validate_spec cont (first :: rest))) = [] -> errs first = [].
Proof. exact accepted_implies_first_pass_valid. Qed.
Print Assumptions C02_accepted_implies_first_pass_valid.

(* The regenerated Swagger 2.0 schema - recursive definitions (schema -> properties -> schema), patternProperties ("^x-", "^/"),
   oneOf, not, formats, additionalProperties: false - satisfies the schema part of the class on which the pipeline's verdict is
   proved to be the draft-4 verdict (C01_recursive_agreement_for_the_binary64_model): a rank exists (3) and every schema below
   the root and the definitions passes the local test, in the data mode without null and with arrays.  What remains is asked
   of the document: JSON without null and without members named "$schema", "id" or "headers", and strings / arrays only where
   the type list next to a format accepts them ([fits_b]).  Re-checked on every run against the schema the code embeds.  This
   is the pre-check-free pipeline; the first pass of spec validation runs with the two Swagger pre-checks on, which add errors
   of their own (and under "not" / "oneOf" an added error can turn a rejection into an acceptance): the implication
   "first pass valid => draft-4 valid" is therefore not a corollary, it is decided per document by the L0 oracle. *)
Definition sw_oracles : option oracles := match Gen.Swagger20.swagger20_case with L (o :: _) => get_oracles o | _ => None end.
Definition sw_in_fragment : bool :=
  match sw_oracles with
  | Some orc =>
      let K := 48%nat in
      let R := fold_right Nat.max O (map (max_rank sw_env K 60) (roots sw_env sw_schema)) in
      guarded_b sw_env K R 60 sw_schema && forallb (walk_b (lc_b f_finite orc) 60) (roots sw_env sw_schema)
  | None => false
  end.
Theorem C02_swagger20_schema_is_inside_the_agreement_fragment : sw_in_fragment = true.
Proof. vm_compute. reflexivity. Qed.
Print Assumptions C02_swagger20_schema_is_inside_the_agreement_fragment.
