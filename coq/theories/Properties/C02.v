(* C02 - An accepted Swagger document always satisfies the Swagger 2.0 JSON schema.
   Partial: the chain is  accepted => first pass (the Swagger 2.0 schema run by the L1 pipeline over the raw
   document) reported nothing  (proved here, for the regenerated schema)  => draft-4 valid  (the soundness half of C01,
   proved so far only outside the recorded finding classes; checked on every document by the L0 oracle). *)
From Coq Require Import List ZArith Bool.
From Verif Require Import Base.Sx Base.GoVal Schema.Ast Schema.Pipeline Result.ResultModel Spec.Orchestration
  Spec.Swagger20Facts.
Import ListNotations.
Open Scope Z_scope.

(* the schema the code embeds today decodes into the model and all its references resolve: the first pass cannot hit the
   documented invalid-schema panic *)
Theorem C02_swagger20_schema_is_modelled : match sw_parts with Some _ => true | None => false end = true.
Proof. exact swagger20_decodes. Qed.
Print Assumptions C02_swagger20_schema_is_modelled.

Theorem C02_swagger20_references_resolve : sw_closed = true.
Proof. exact swagger20_references_resolve. Qed.
Print Assumptions C02_swagger20_references_resolve.

(* any document that the first pass rejects is reported with at least one error, with or without continue-on-errors *)
Theorem C02_first_pass_errors_are_kept : forall cont first rest m,
  In m (errs first) -> In m (errs (fst (validate_spec cont (first :: rest)))).
Proof. exact first_pass_errors_are_kept. Qed.
Print Assumptions C02_first_pass_errors_are_kept.

Theorem C02_accepted_implies_first_pass_valid : forall cont first rest,
  errs (fst (validate_spec cont (first :: rest))) = [] -> errs first = [].
Proof. exact accepted_implies_first_pass_valid. Qed.
Print Assumptions C02_accepted_implies_first_pass_valid.
