(* C04 - Object recycling never changes an outcome, whatever came before. *)
From Coq Require Import List Arith ZArith Bool String.
From Verif Require Import Life.PoolGeneric Life.Protocol Gen.CtorFacts Life.CtorCheck.
Import ListNotations.

(* Generic: a client of the pools whose fresh run is disciplined (no tenure redeemed twice, no access after the
   redeem, every field written before it is read) issues the same commands, reads and outputs the same values on a
   real pool - for every initial pool content, every borrow oracle, every number of steps; the pool never holds an
   object twice nor one that is still borrowed. *)
Theorem C04_recycling_is_transparent_for_disciplined_clients : forall P n,
  disciplined (f_trace (f_run P n)) = true ->
  forall ch n0 garbage,
    let ps := p_run P ch n0 garbage n in
    let fs := f_run P n in
    p_trace ps = f_trace fs /\ p_reads ps = f_reads fs /\ p_outs ps = f_outs fs /\
    NoDup (p_pool ps) /\
    (forall t, live (d_of (f_trace fs) d_init) t = true -> ~ In (p_owner ps t) (p_pool ps)).
Proof. exact pool_noninterference. Qed.
Print Assumptions C04_recycling_is_transparent_for_disciplined_clients.

(* the hypothesis is necessary: a client that reads before it writes observes what came before *)
Theorem C04_discipline_is_needed :
  f_outs (f_run careless 4) = [0%Z] /\
  p_outs (p_run careless (fun _ => Some 0) 1 (fun _ _ => 7%Z) 4) = [7%Z] /\
  disciplined (f_trace (f_run careless 4)) = false.
Proof. exact careless_sees_garbage. Qed.
Print Assumptions C04_discipline_is_needed.

(* The validators' redeem protocol (each validator redeems itself once, parents clear a child's slot before the
   child runs, non-applicable children are relinquished, the rest is redeemed when the parent returns): every
   validator object of every tree is redeemed exactly once, with or without an abort ... *)
Theorem C04_every_validator_redeemed_exactly_once : forall t k q,
  In q (nodes [] t) -> count (is_redeem q) (fst (run [] t k)) = 1.
Proof. exact every_validator_redeemed_once. Qed.
Print Assumptions C04_every_validator_redeemed_exactly_once.

(* ... and is not touched between its use and its redeem by anything else *)
Theorem C04_used_before_redeemed : forall a u ch p k,
  exists mid, fst (run p (Node a u ch) k) = EUse p :: mid ++ [ERedeem p] /\ forall e, In e mid -> mentions p e = false.
Proof. exact used_before_redeemed. Qed.
Print Assumptions C04_used_before_redeemed.

(* every constructor (and Result.cleared) assigns every field of the pooled type: table regenerated from /repo *)
Theorem C04_constructors_overwrite_every_field : forallb covers ctor_table = true.
Proof. exact ctor_writes_all_fields. Qed.
Print Assumptions C04_constructors_overwrite_every_field.
