(* C14 - The exported value helpers implement their textbook definitions for every input. *)
From Coq Require Import List ZArith Bool.
From Verif Require Import Base.Sx Base.GoVal Base.F64 Schema.Helpers Schema.HelpersFacts.
Import ListNotations.
Open Scope Z_scope.

(* MinLength / MaxLength: the byte-level transcription of utf8.RuneCountInString counts Unicode code points
   on every valid UTF-8 string (any number of code points, all of U+0000..U+10FFFF except surrogates) *)
Theorem C14_lengths_count_code_points : forall cps, Forall scalar_value cps ->
  rune_count (flat_map utf8_encode cps) = Z.of_nat (length cps).
Proof. exact rune_count_counts_code_points. Qed.
Print Assumptions C14_lengths_count_code_points.

Theorem C14_min_max_length : forall HO s n,
  (min_length HO s n = true <-> rune_count (h_bytes HO s) < n) /\ (max_length HO s n = true <-> n < rune_count (h_bytes HO s)).
Proof. intros. unfold min_length, max_length. rewrite !Z.ltb_lt. tauto. Qed.
Print Assumptions C14_min_max_length.

(* Pattern is a regexp search and reports an invalid pattern as an error *)
Theorem C14_pattern : forall HO data pat,
  pattern_h HO data pat = true <-> (h_re_ok HO pat = false \/ h_re_match HO pat data = false).
Proof. exact pattern_iff. Qed.
Print Assumptions C14_pattern.

(* Required rejects exactly zero values; ReadOnly rejects exactly non-zero values in a request context *)
Theorem C14_required : forall N v, required_h N v = true <-> (is_zero N v = None \/ is_zero N v = Some true).
Proof. exact required_iff_zero. Qed.
Print Assumptions C14_required.

Theorem C14_read_only : forall N op v, read_only_h N op v = true <-> (op = true /\ is_zero N v = Some false).
Proof. exact read_only_iff_nonzero_in_request. Qed.
Print Assumptions C14_read_only.

(* FormatOf rejects unknown format names and otherwise follows the registry *)
Theorem C14_format_of : forall HO fmt data,
  format_of HO fmt data = (if h_fmt_known HO fmt then if h_fmt_check HO fmt data then 0 else 2 else 1).
Proof. exact format_of_spec. Qed.
Print Assumptions C14_format_of.

(* MinItems / MaxItems compare sizes *)
Theorem C14_items : forall size n, (min_items size n = true <-> size < n) /\ (max_items size n = true <-> n < size).
Proof. intros. unfold min_items, max_items. rewrite !Z.ltb_lt. tauto. Qed.
Print Assumptions C14_items.

(* UniqueItems reports an error exactly when some element is deep-equal to an earlier one ... *)
Theorem C14_unique_items_scan : forall N et isnil l,
  unique_items_h N (HSlice et isnil l) = true <->
  exists pre x post, l = pre ++ x :: post /\ existsb (hdeep_eq N x) pre = true.
Proof. exact unique_items_spec. Qed.
Print Assumptions C14_unique_items_scan.

(* ... but deep equality there is reflect.DeepEqual, which tells Go types apart: the full statement ("numerically
   equal numbers of different Go types are equal") is false of the faithful model (finding unique-items-type-sensitive) *)
Theorem C14_full_refuted_unique_items_type_sensitive :
  exists l, unique_items_h flocq_ops (HSlice 14 false l) = false /\ has_dup_spec flocq_ops l = true.
Proof. exists [HInt KInt 1; HFlt false 0x3FF0000000000000]. split; vm_compute; reflexivity. Qed.
Print Assumptions C14_full_refuted_unique_items_type_sensitive.

(* Enum after the repair: numbers of different Go types are members when numerically equal, lossy conversions are not *)
Definition ho0 : horacles :=
  {| h_bytes := fun _ => []; h_re_ok := fun _ => true; h_re_match := fun _ _ => true; h_fmt_known := fun _ => true;
     h_fmt_check := fun _ _ => true; h_fold_eq := Z.eqb; h_rune_str := fun _ => 33; h_str_of_bytes := fun _ => -1 |}.

Example C14_enum_examples :
  ( enum_case ho0 flocq_ops f_round32 (HInt KInt 1) (Some [HFlt false 0x3FF0000000000000]) true,     (* 1 in [1.0] *)
    enum_case ho0 flocq_ops f_round32 (HFlt false 0x3FF8000000000000) (Some [HInt KInt 1]) true,     (* 1.5 not in []int{1} *)
    enum_case ho0 flocq_ops f_round32 (HInt KInt 97) (Some [HStr 33]) true,                           (* 97 not in ["a"] *)
    enum_case ho0 flocq_ops f_round32 (HInt KUint 200) (Some [HInt KInt8 (-56)]) true,                (* no wrap-around *)
    enum_case ho0 flocq_ops f_round32 HNil (Some [HNil]) true )                                        (* nil in [nil] *)
  = (false, true, true, true, false).
Proof. vm_compute. reflexivity. Qed.
