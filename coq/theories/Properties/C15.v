(* C15 - Pattern matching always uses the expression that was asked for. *)
From Coq Require Import List ZArith Bool.
From Verif Require Import Conc.RegexpCache.
Import ListNotations.
Open Scope Z_scope.

(* All four theorems hold for every reachable state of every interleaving of any number of goroutines calling
   compileRegexp with arbitrary patterns; [compile] and [source] are arbitrary functions satisfying the single
   assumption that the source text of a compiled expression is the text it was compiled from. *)

Theorem C15_cache_sound : forall re compile source,
  (forall p r, compile p = Some r -> source r = p) ->
  forall st, reachable re compile source st -> forall p r, cache re st p = Some r -> compile p = Some r.
Proof. exact cache_sound. Qed.
Print Assumptions C15_cache_sound.

Theorem C15_returns_asked : forall re compile source,
  (forall p r, compile p = Some r -> source r = p) ->
  forall st t p res, reachable re compile source st -> threads re st t = TDone re p res -> res = compile p.
Proof. exact returns_asked. Qed.
Print Assumptions C15_returns_asked.

Theorem C15_invalid_never_cached : forall re compile source,
  (forall p r, compile p = Some r -> source r = p) ->
  forall st p, reachable re compile source st -> compile p = None -> cache re st p = None.
Proof. exact invalid_never_cached. Qed.
Print Assumptions C15_invalid_never_cached.

Theorem C15_entries_never_lost : forall re compile source,
  (forall p r, compile p = Some r -> source r = p) ->
  forall st st', reachable re compile source st -> step re compile source st st' ->
  forall p r, cache re st p = Some r -> cache re st' p = Some r.
Proof. exact entries_never_lost. Qed.
Print Assumptions C15_entries_never_lost.

Theorem C15_copy_on_write_is_exclusive : forall re compile source,
  (forall p r, compile p = Some r -> source r = p) ->
  forall st t u, reachable re compile source st ->
  in_critical re (threads re st t) = true -> in_critical re (threads re st u) = true -> t = u.
Proof. exact mutual_exclusion. Qed.
Print Assumptions C15_copy_on_write_is_exclusive.

(* non-vacuity: with patterns = integers, compile p = Some p for even p (odd patterns are invalid), two threads
   racing to cache pattern 4 both end with the right expression and the cache holds it once *)
Example C15_example :
  let compile := fun p : Z => if Z.even p then Some p else None in
  exists st, reachable Z compile (fun r => r) st /\ cache Z st 4 = Some 4 /\ cache Z st 3 = None.
Proof.
  intros compile.
  set (s0 := init Z).
  set (s1 := {| cache := cache Z s0; lock := lock Z s0; threads := set_thread Z s0 0 (TLookup Z 4) |}).
  set (s2 := {| cache := cache Z s1; lock := lock Z s1; threads := set_thread Z s1 0 (TMissed Z 4) |}).
  set (s3 := {| cache := cache Z s2; lock := lock Z s2; threads := set_thread Z s2 0 (TCompiled Z 4 4) |}).
  set (s4 := {| cache := cache Z s3; lock := Some 0%nat; threads := set_thread Z s3 0 (THold Z 4 4) |}).
  set (s5 := {| cache := cache Z s4; lock := lock Z s4; threads := set_thread Z s4 0 (TLoaded Z 4 4 (cache Z s4)) |}).
  set (s6 := {| cache := cadd Z (cache Z s4) 4 4; lock := lock Z s5; threads := set_thread Z s5 0 (TStored Z 4 4) |}).
  exists s6. split; [|split; reflexivity].
  apply r_step with s5; [apply r_step with s4; [apply r_step with s3; [apply r_step with s2; [apply r_step with s1; [apply r_step with s0; [apply r_init|]|]|]|]|]|].
  - apply (s_call Z compile (fun r => r) s0 0%nat 4). reflexivity.
  - apply (s_miss Z compile (fun r => r) s1 0%nat 4); reflexivity.
  - apply (s_compile_ok Z compile (fun r => r) s2 0%nat 4 4); reflexivity.
  - apply (s_lock Z compile (fun r => r) s3 0%nat 4 4); reflexivity.
  - apply (s_load Z compile (fun r => r) s4 0%nat 4 4); reflexivity.
  - apply (s_store Z compile (fun r => r) s5 0%nat 4 4 (cache Z s4)); reflexivity.
Qed.
