(* C06 - Schema validation always terminates with a verdict and never panics. *)
From Coq Require Import List ZArith Bool.
From Verif Require Import Base.Sx Base.GoVal Schema.Ast Schema.Build Schema.Pipeline Schema.PipelineTotal Schema.PipelineTerm Schema.PipelineTermRec Schema.PipelineTermDec Schema.Agreement Schema.AgreementDec.
Import ListNotations.
Open Scope Z_scope.

(* For every schema, value (JSON, typed or json.Number carriers), option set, oracle answers and numeric
   implementation, at every amount of fuel: if the model panics, it is the documented invalid-schema panic.
   (No hypothesis on the schema: degenerate keywords, invalid patterns, unknown formats are all in scope.) *)
Theorem C06_only_documented_panic : forall OR N opt defs fuel s p q d site,
  sv_validate OR N opt defs fuel s p q d = Panic site -> site = P_BAD_REF.
Proof.
  intros OR N opt defs fuel s p q d site H.
  pose proof (only_documented_panic OR N opt defs fuel s p q d) as G. rewrite H in G. exact G.
Qed.
Print Assumptions C06_only_documented_panic.

(* the documented panic needs a reference that is not in the environment *)
Theorem C06_resolvable_references_do_not_panic : forall defs fuel s site,
  refs_closed_fuel defs fuel s -> resolve defs fuel s <> Panic site.
Proof. intros defs fuel s site H. exact (resolve_no_panic defs fuel s H site). Qed.
Print Assumptions C06_resolvable_references_do_not_panic.

(* The full statement ("returns normally for every schema whose references resolve") is false of the faithful
   model: a reference cycle that crosses only composition keywords exhausts every amount of fuel, i.e. the code
   recurses without bound while constructing validators (finding class unguarded-composition-cycle). *)
Theorem C06_full_refuted_unguarded_cycle : forall OR N opt fuel p q d,
  sv_validate OR N opt cyc_defs fuel cyc_a p q d = OutOfFuel.
Proof. exact unguarded_cycle_never_terminates. Qed.
Print Assumptions C06_full_refuted_unguarded_cycle.

(* Positive half: on a schema without references a verdict is returned - no panic and no exhaustion - for every value,
   option set, oracle and numeric implementation, as soon as the fuel exceeds the nesting depth ([bounded n s]: no
   reference anywhere and nesting depth at most n).  With references, see the next theorem. *)
Theorem C06_schemas_without_references_terminate_partial : forall OR N opt defs n fuel s,
  bounded n s -> (n < fuel)%nat -> forall p q d, exists r, sv_validate OR N opt defs fuel s p q d = Ok r.
Proof. exact ref_free_schemas_terminate. Qed.
Print Assumptions C06_schemas_without_references_terminate_partial.

(* non-vacuity: {"type":"object","properties":{"a":{"items":{"not":{}}}},"additionalProperties":{"allOf":[{}]}} is bounded by 4 *)
Definition c06_example : schema :=
  set_props [(40, set_items_one (Some (set_not (Some empty_schema) empty_schema)) empty_schema)]
    (set_add_props (Some (true, Some (set_all_of [empty_schema] empty_schema))) empty_schema).
Example C06_bounded_somewhere : bounded 4 c06_example.
Proof.
  apply (clean_bounded (finP (fun _ => true)) false true {| o_rune_len := fun _ => 0; o_re_ok := fun _ => true; o_re_match := fun _ _ => false;
                                                       o_fmt_known := fun _ => false; o_fmt_check := fun _ _ => true |}).
  apply clean_b_sound. vm_compute. reflexivity.
Qed.

(* Recursive definitions.  Let W be a set of schemas closed under "sub-schema of" and "target of the reference of", and
   rank a measure on W, bounded by R, that strictly decreases along the edges that apply a schema to the SAME value:
   $ref -> target, allOf / anyOf / oneOf / not members, schema dependencies ([guarded]: in particular every reference
   resolves).  Cycles through items, properties, patternProperties, additionalItems / additionalProperties are allowed:
   they descend into the value.  Then a verdict is returned - no panic, no exhaustion - for every value, option set,
   oracle and numeric implementation, once the fuel exceeds depth(value) * (R + 1) + rank(schema).  The refuted cycle
   above is exactly a schema without such a rank; between the two lies nothing: C06 is decided on the model up to the
   existence of the rank, which [guarded_b] computes. *)
Theorem C06_guarded_recursive_schemas_terminate : forall defs W rank R, guarded defs W rank R ->
  forall OR N opt fuel s d, W s -> (goval_depth d * S R + rank s < fuel)%nat ->
  forall p q, exists r, sv_validate OR N opt defs fuel s p q d = Ok r.
Proof. intros defs W rank R G OR N opt. exact (guarded_schemas_terminate defs W rank R G OR N opt). Qed.
Print Assumptions C06_guarded_recursive_schemas_terminate.

(* the hypothesis is decidable: rank = height of the unfolding along value-preserving edges, cut at K; every schema
   below the root and below every definition is inspected (the walk fails when its fuel n does not reach the leaves) *)
Theorem C06_decided_schemas_terminate : forall defs OR N opt K R n root fuel d,
  guarded_b defs K R n root = true -> (goval_depth d * S R + urank defs K root < fuel)%nat ->
  forall p q, exists r, sv_validate OR N opt defs fuel root p q d = Ok r.
Proof. intros defs OR N opt K R n root fuel d. exact (decided_schemas_terminate defs OR N opt K R n root fuel d). Qed.
Print Assumptions C06_decided_schemas_terminate.

(* non-vacuity: a linked list whose nodes extend a base definition
     definitions: base = {"type":"object"}, node = {"allOf":[{"$ref":base}], "properties":{"next":{"$ref":node}}, "additionalProperties":{"items":{"$ref":node}}}
     root = {"$ref": node}
   ranks: base 0, $ref base 1, node 2, $ref node 3 *)
Definition c06_base : schema := set_types [k_object] empty_schema.
Definition c06_node : schema :=
  set_all_of [set_ref (Some 51) empty_schema]
    (set_props [(40, set_ref (Some 52) empty_schema)]
       (set_add_props (Some (true, Some (set_items_one (Some (set_ref (Some 52) empty_schema)) empty_schema))) empty_schema)).
Definition c06_defs : env := [(51, c06_base); (52, c06_node)].
Definition c06_root : schema := set_ref (Some 52) empty_schema.
Example C06_recursive_list_is_guarded : guarded_b c06_defs 8 3 6 c06_root = true /\ urank c06_defs 8 c06_root = 3%nat.
Proof. vm_compute. split; reflexivity. Qed.
(* and the refuted cycle is rejected by the decision procedure, at every cut *)
Example C06_cycle_is_not_guarded : guarded_b cyc_defs 8 8 6 cyc_a = false.
Proof. vm_compute. reflexivity. Qed.
