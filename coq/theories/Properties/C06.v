(* C06 - Schema validation always terminates with a verdict and never panics. *)
From Coq Require Import List ZArith Bool.
From Verif Require Import Base.Sx Base.GoVal Schema.Ast Schema.Build Schema.Pipeline Schema.PipelineTotal Schema.PipelineTerm Schema.Agreement Schema.AgreementDec.
Import ListNotations.
Open Scope Z_scope.

(* For every schema, value (JSON, typed or json.Number carriers), option set, oracle answers and numeric
   implementation, at every amount of fuel: if the model panics, it is the documented invalid-schema panic.
   (No hypothesis on the schema: degenerate keywords, invalid patterns, unknown formats are all in scope.) *)
Theorem C06_only_documented_panic : forall OR N opt defs fuel s p q d site,
  sv_validate OR N opt defs fuel s p q d = Panic site -> site = P_BAD_REF.
Proof.
  intros OR N opt defs fuel s p q d site H.
  pose proof (only_documented_panic OR N opt defs fuel s p q d) as G. rewrite H in G. exact G.
Qed.
Print Assumptions C06_only_documented_panic.

(* the documented panic needs a reference that is not in the environment *)
Theorem C06_resolvable_references_do_not_panic : forall defs fuel s site,
  refs_closed_fuel defs fuel s -> resolve defs fuel s <> Panic site.
Proof. intros defs fuel s site H. exact (resolve_no_panic defs fuel s H site). Qed.
Print Assumptions C06_resolvable_references_do_not_panic.

(* The full statement ("returns normally for every schema whose references resolve") is false of the faithful
   model: a reference cycle that crosses only composition keywords exhausts every amount of fuel, i.e. the code
   recurses without bound while constructing validators (finding class unguarded-composition-cycle). *)
Theorem C06_full_refuted_unguarded_cycle : forall OR N opt fuel p q d,
  sv_validate OR N opt cyc_defs fuel cyc_a p q d = OutOfFuel.
Proof. exact unguarded_cycle_never_terminates. Qed.
Print Assumptions C06_full_refuted_unguarded_cycle.

(* Positive half: on a schema without references a verdict is returned - no panic and no exhaustion - for every value,
   option set, oracle and numeric implementation, as soon as the fuel exceeds the nesting depth ([bounded n s]: no
   reference anywhere and nesting depth at most n).  With references the statement needs a guardedness condition that
   is not proved yet: the class between this theorem and the refutation above is covered by the tie only. *)
Theorem C06_schemas_without_references_terminate_partial : forall OR N opt defs n fuel s,
  bounded n s -> (n < fuel)%nat -> forall p q d, exists r, sv_validate OR N opt defs fuel s p q d = Ok r.
Proof. exact ref_free_schemas_terminate. Qed.
Print Assumptions C06_schemas_without_references_terminate_partial.

(* non-vacuity: {"type":"object","properties":{"a":{"items":{"not":{}}}},"additionalProperties":{"allOf":[{}]}} is bounded by 4 *)
Definition c06_example : schema :=
  set_props [(40, set_items_one (Some (set_not (Some empty_schema) empty_schema)) empty_schema)]
    (set_add_props (Some (true, Some (set_all_of [empty_schema] empty_schema))) empty_schema).
Example C06_bounded_somewhere : bounded 4 c06_example.
Proof.
  apply (clean_bounded (finP (fun _ => true)) false {| o_rune_len := fun _ => 0; o_re_ok := fun _ => true; o_re_match := fun _ _ => false;
                                                       o_fmt_known := fun _ => false; o_fmt_check := fun _ _ => true |}).
  apply clean_b_sound. vm_compute. reflexivity.
Qed.
