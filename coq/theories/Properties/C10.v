(* C10 - Spec validation is deterministic, monotone, and keeps warnings apart. *)
From Coq Require Import List ZArith Bool Permutation.
From Verif Require Import Base.Sx Result.ResultModel Result.ResultLaws Spec.Orchestration.
Import ListNotations.
Open Scope Z_scope.

(* every error reported when stopping early is also reported with continue-on-errors, whatever the stages return *)
Theorem C10_monotone : forall stages i acc m,
  In m (errs (stages_from false i acc stages)) -> In m (errs (stages_from true i acc stages)).
Proof. exact stop_early_subset_of_continue. Qed.
Print Assumptions C10_monotone.

(* warnings alone never make a document invalid: the warnings bookkeeping leaves the errors alone and validity is the
   absence of errors *)
Theorem C10_warnings_do_not_invalidate : forall e, errs (fst (finish e)) = errs e.
Proof. exact finish_keeps_errors. Qed.
Print Assumptions C10_warnings_do_not_invalidate.

Theorem C10_validity : forall cont stages,
  is_valid (Some (fst (validate_spec cont stages))) = true <-> errs (fst (validate_spec cont stages)) = [].
Proof. exact validity_is_absence_of_errors. Qed.
Print Assumptions C10_validity.

(* the separately returned warnings are exactly the warnings attached to the main result *)
Theorem C10_returned_warnings : forall e, NoDup (warns e) -> errs (snd (finish e)) = warns (fst (finish e)).
Proof. exact returned_warnings_are_the_attached_ones. Qed.
Print Assumptions C10_returned_warnings.

(* determinism with respect to map iteration order: with continue-on-errors the set of messages of the required-
   definitions loop is the same for every order of the definitions *)
Theorem C10_required_definitions_order_independent : forall defs defs' acc m,
  Permutation defs defs' ->
  (In m (errs (required_defs true acc defs)) <-> In m (errs (required_defs true acc defs'))).
Proof. exact required_defs_order_independent. Qed.
Print Assumptions C10_required_definitions_order_independent.

(* in stop-early mode the report is that of the first offender in iteration order: the statement "same messages for
   every map order" is false of the loop as such (witness); the repaired code iterates in sorted name order *)
Theorem C10_stop_early_needs_a_fixed_order :
  errs (required_defs false new_result [[mkResult [1] [] 0]; [mkResult [2] [] 0]]) = [1] /\
  errs (required_defs false new_result [[mkResult [2] [] 0]; [mkResult [1] [] 0]]) = [2].
Proof. exact stop_early_depended_on_map_order. Qed.
Print Assumptions C10_stop_early_needs_a_fixed_order.
