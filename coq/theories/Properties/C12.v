(* C12 - Validation treats its inputs as read-only (partial: a write-effect abstraction of the modelled algorithm). *)
From Coq Require Import List ZArith Bool.
From Verif Require Import Base.Sx Base.GoVal Schema.Ast Schema.Pipeline Schema.Stateless Schema.Post Schema.PostFacts.
Import ListNotations.
Open Scope Z_scope.

(* The model of validation is a function from (schema, instance) to a result: it has no way to return a changed
   instance. The only functions that produce instance data are the post-processing ones, which are not part of
   validation; on a result that recorded nothing they are the identity on members. *)
Theorem C12_only_post_processing_produces_data : forall r id m,
  exists m', apply_defaults r (VObj id m) = VObj id (m' ++ added_members r id m) /\ map fst m' = map fst m /\
             (forall k v, In (k, v) m -> is_container v = false -> In (k, v) m').
Proof. exact apply_defaults_object. Qed.
Print Assumptions C12_only_post_processing_produces_data.

(* the only in-place write of validation is the expansion of a node that carries a reference: a schema without
   references is resolved to itself, at every fuel, so nothing is written to it *)
Theorem C12_schema_without_references_is_not_expanded : forall defs fuel fuel' s,
  ref_free (S fuel') s -> resolve defs fuel s = Ok s.
Proof. exact no_expansion_without_references. Qed.
Print Assumptions C12_schema_without_references_is_not_expanded.
