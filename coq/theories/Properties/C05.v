(* C05 - Concurrent validations are race-free and independent of each other (partial: the model's atomic steps
   are pool Get/Put, accesses to owned objects, mutex lock/unlock and atomic.Value load/store; the Go memory
   model and the scheduler themselves are not modelled - the race detector run covers them by observation). *)
From Coq Require Import List Arith ZArith Bool.
From Verif Require Import Life.PoolGeneric Conc.Opts Conc.RegexpCache.
Import ListNotations.

(* exclusive ownership of pooled objects: two live tenures never share a physical object, for every client -
   in particular the merge of the command streams of any number of goroutines under any scheduler *)
Theorem C05_exclusive_ownership : forall P n,
  disciplined (f_trace (f_run P n)) = true ->
  forall ch n0 garbage t u,
    let ps := p_run P ch n0 garbage n in
    let d := d_of (f_trace (f_run P n)) d_init in
    live d t = true -> live d u = true -> p_owner ps t = p_owner ps u -> t = u.
Proof. exact exclusive_ownership. Qed.
Print Assumptions C05_exclusive_ownership.

(* independence: what a disciplined client reads and outputs does not depend on the pool (hence not on what other
   goroutines returned to it) *)
Theorem C05_outcomes_independent_of_the_pool : forall P n,
  disciplined (f_trace (f_run P n)) = true ->
  forall ch n0 garbage, p_reads (p_run P ch n0 garbage n) = f_reads (f_run P n) /\
                        p_outs (p_run P ch n0 garbage n) = f_outs (f_run P n).
Proof.
  intros P n H ch n0 g. pose proof (pool_noninterference P n H ch n0 g) as X. cbv zeta in X. tauto.
Qed.
Print Assumptions C05_outcomes_independent_of_the_pool.

(* the package default options: every access happens with the mutex held and at most one goroutine holds it *)
Theorem C05_default_options_accesses_exclusive : forall o st t u, Opts.reachable o st ->
  Opts.in_critical (Opts.threads st t) = true -> Opts.in_critical (Opts.threads st u) = true -> t = u.
Proof. exact accesses_are_exclusive. Qed.
Print Assumptions C05_default_options_accesses_exclusive.

Theorem C05_validator_copy_is_a_set_value : forall o st t v, Opts.reachable o st ->
  Opts.threads st t = OGot v -> v = o \/ In v (Opts.written st).
Proof. exact copy_is_a_written_value. Qed.
Print Assumptions C05_validator_copy_is_a_set_value.

(* the regular expression cache: copy-on-write happens under the mutex, one writer at a time *)
Theorem C05_regexp_cache_single_writer : forall re compile source,
  (forall p r, compile p = Some r -> source r = p) ->
  forall st t u, RegexpCache.reachable re compile source st ->
  RegexpCache.in_critical re (RegexpCache.threads re st t) = true ->
  RegexpCache.in_critical re (RegexpCache.threads re st u) = true -> t = u.
Proof. exact mutual_exclusion. Qed.
Print Assumptions C05_regexp_cache_single_writer.
