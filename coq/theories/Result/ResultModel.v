(* L1 model of result.go (errors / warnings / MatchCount part).

   A message is identified by its text (the harness interns texts to integers);
   [None] stands for a nil error value.  A variable holds a *Result pointer:
   [None] is the nil pointer.  The functions transcribe result.go:116-128
   (Merge), 271-276 (mergeWithoutRootSchemata, messages and match count),
   298-332 (MergeAsErrors / MergeAsWarnings), 339-372 (AddErrors / AddWarnings
   with their nested scan), 421-462 (queries, Inc).

   No proofs in this file: it must keep building (and running in the
   correspondence check) when a proof breaks. *)
From Coq Require Import List ZArith Bool.
From Verif Require Import Base.Sx.
Import ListNotations.
Open Scope Z_scope.

Definition msg := Z.

Record result : Type := mkResult { errs : list msg; warns : list msg; mc : Z }.

Definition new_result : result := mkResult [] [] 0.

(* result.go:343-348: the inner scan "for _, isReported := range r.Errors" *)
Fixpoint reported (e : msg) (l : list msg) : bool :=
  match l with
  | [] => false
  | x :: xs => if Z.eqb e x then true else reported e xs
  end.

(* result.go:340-353: one iteration of the outer loop *)
Definition add_one (l : list msg) (e : option msg) : list msg :=
  match e with
  | None => l                                   (* if e != nil *)
  | Some m => if reported m l then l else l ++ [m]
  end.

Definition add_msgs (l : list msg) (es : list (option msg)) : list msg :=
  fold_left add_one es l.

Definition add_errors (r : result) (es : list (option msg)) : result :=
  mkResult (add_msgs (errs r) es) (warns r) (mc r).

Definition add_warnings (r : result) (es : list (option msg)) : result :=
  mkResult (errs r) (add_msgs (warns r) es) (mc r).

Definition inc (r : result) : result := mkResult (errs r) (warns r) (mc r + 1).

(* other != nil branch of Merge: AddErrors(other.Errors...), AddWarnings(other.Warnings...), MatchCount += *)
Definition merge1 (r o : result) : result :=
  let r1 := add_errors r (map Some (errs o)) in
  let r2 := add_warnings r1 (map Some (warns o)) in
  mkResult (errs r2) (warns r2) (mc r2 + mc o).

Definition merge_as_errors1 (r o : result) : result :=
  let r1 := add_errors r (map Some (errs o)) in
  let r2 := add_errors r1 (map Some (warns o)) in
  mkResult (errs r2) (warns r2) (mc r2 + mc o).

Definition merge_as_warnings1 (r o : result) : result :=
  let r1 := add_warnings r (map Some (errs o)) in
  let r2 := add_warnings r1 (map Some (warns o)) in
  mkResult (errs r2) (warns r2) (mc r2 + mc o).

(* nil-tolerant queries, result.go:421-457 *)
Definition is_valid (r : option result) : bool :=
  match r with None => true | Some r => match errs r with [] => true | _ => false end end.
Definition has_errors (r : option result) : bool :=
  match r with None => false | Some _ => negb (is_valid r) end.
Definition has_warnings (r : option result) : bool :=
  match r with None => false | Some r => match warns r with [] => false | _ => true end end.
Definition has_errors_or_warnings (r : option result) : bool :=
  match r with
  | None => false
  | Some r => match errs r, warns r with [], [] => false | _, _ => true end
  end.

(* ---- histories over a fixed set of pointer variables ---- *)

Definition state := list (option result).     (* variable i = nth i *)

Definition get (st : state) (v : nat) : option result := nth v st None.

Fixpoint set (st : state) (v : nat) (x : option result) : state :=
  match st, v with
  | [], _ => []
  | _ :: t, O => x :: t
  | h :: t, S v' => h :: set t v' x
  end.

Inductive op : Type :=
| OAddErrors (v : nat) (es : list (option msg))
| OAddWarnings (v : nat) (es : list (option msg))
| OMerge (v : nat) (ws : list nat)
| OMergeAsErrors (v : nat) (ws : list nat)
| OMergeAsWarnings (v : nat) (ws : list nat)
| OInc (v : nat)
| ONew (v : nat)
| OSetNil (v : nat).

(* "for _, other := range others": operands are read one after the other from the
   current state, so that r.Merge(r) and r.Merge(a, r) see r as updated so far *)
Definition merge_with (f : result -> result -> result) (st : state) (v : nat) (ws : list nat) : state :=
  fold_left
    (fun st w =>
       match get st v, get st w with
       | Some r, Some o => set st v (Some (f r o))
       | _, _ => st                               (* other == nil: continue *)
       end) ws st.

Definition upd (st : state) (v : nat) (f : result -> result) : state :=
  match get st v with
  | Some r => set st v (Some (f r))
  | None => st                                    (* nil receiver: Go dereferences nil; never generated *)
  end.

Definition step (st : state) (o : op) : state :=
  match o with
  | OAddErrors v es => upd st v (fun r => add_errors r es)
  | OAddWarnings v es => upd st v (fun r => add_warnings r es)
  | OMerge v ws => merge_with merge1 st v ws
  | OMergeAsErrors v ws => merge_with merge_as_errors1 st v ws
  | OMergeAsWarnings v ws => merge_with merge_as_warnings1 st v ws
  | OInc v => upd st v inc
  | ONew v => set st v (Some new_result)
  | OSetNil v => set st v None
  end.

Definition nvars : nat := 4.
Definition init : state := repeat None nvars.

(* all intermediate states, oldest first *)
Fixpoint trace (st : state) (ops : list op) : list state :=
  match ops with
  | [] => []
  | o :: os => let st' := step st o in st' :: trace st' os
  end.

(* ---- codecs ---- *)

Definition getMsgOpt (s : sx) : option (option msg) :=
  match s with A z => Some (if z <? 0 then None else Some z) | _ => None end.

Definition get_op (s : sx) : option op :=
  match s with
  | L [A 0; v; es] =>
      match getNat v, getList getMsgOpt es with Some v, Some es => Some (OAddErrors v es) | _, _ => None end
  | L [A 1; v; es] =>
      match getNat v, getList getMsgOpt es with Some v, Some es => Some (OAddWarnings v es) | _, _ => None end
  | L [A 2; v; ws] =>
      match getNat v, getList getNat ws with Some v, Some ws => Some (OMerge v ws) | _, _ => None end
  | L [A 3; v; ws] =>
      match getNat v, getList getNat ws with Some v, Some ws => Some (OMergeAsErrors v ws) | _, _ => None end
  | L [A 4; v; ws] =>
      match getNat v, getList getNat ws with Some v, Some ws => Some (OMergeAsWarnings v ws) | _, _ => None end
  | L [A 5; v] => match getNat v with Some v => Some (OInc v) | None => None end
  | L [A 6; v] => match getNat v with Some v => Some (ONew v) | None => None end
  | L [A 7; v] => match getNat v with Some v => Some (OSetNil v) | None => None end
  | _ => None
  end.

Definition view (r : option result) : sx :=
  L [ match r with
      | None => L []
      | Some r => L [ofZs (errs r); ofZs (warns r); A (mc r)]
      end;
      ofBool (is_valid r); ofBool (has_errors r); ofBool (has_warnings r);
      ofBool (has_errors_or_warnings r) ].

Definition view_state (st : state) : sx := L (map view st).

(* entry point: list of ops -> the views of all variables after every step *)
Definition run_c20 (s : sx) : sx :=
  match getList get_op s with
  | Some ops => L (map view_state (trace init ops))
  | None => sx_err
  end.
