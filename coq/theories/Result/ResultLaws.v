(* L0 specification of result combination (ordered sets of messages, additive
   match counts) and the proof that the L1 model of result.go refines it. *)
From Coq Require Import List ZArith Bool Lia Permutation.
From Verif Require Import Base.Sx Result.ResultModel.
Import ListNotations.
Open Scope Z_scope.

(* ------------------------------------------------------------------ *)
(* L0: ordered sets                                                     *)

Fixpoint somes (es : list (option msg)) : list msg :=
  match es with
  | [] => []
  | None :: t => somes t
  | Some m :: t => m :: somes t
  end.

Fixpoint mem (x : msg) (l : list msg) : bool :=
  match l with [] => false | y :: t => Z.eqb x y || mem x t end.

(* first occurrences of the members of [l] that are not in [seen], in order *)
Fixpoint dedup (seen l : list msg) : list msg :=
  match l with
  | [] => []
  | x :: t => if mem x seen then dedup seen t else x :: dedup (x :: seen) t
  end.

(* "add the messages es to the ordered set l" *)
Definition spec_add (l : list msg) (es : list (option msg)) : list msg :=
  l ++ dedup l (somes es).

Lemma mem_In x l : mem x l = true <-> In x l.
Proof.
  induction l as [|y t IH]; simpl; [split; [discriminate|tauto]|].
  rewrite orb_true_iff, IH, Z.eqb_eq. split; intros [H|H]; auto.
Qed.

Lemma mem_false_In x l : mem x l = false <-> ~ In x l.
Proof. rewrite <- mem_In. destruct (mem x l); split; congruence. Qed.

Lemma reported_mem e l : reported e l = mem e l.
Proof.
  induction l as [|y t IH]; simpl; [reflexivity|].
  destruct (Z.eqb e y); simpl; auto.
Qed.

Lemma mem_ext s1 s2 x : (forall y, In y s1 <-> In y s2) -> mem x s1 = mem x s2.
Proof.
  intros H. destruct (mem x s1) eqn:E1, (mem x s2) eqn:E2; auto.
  - apply mem_In in E1. apply H in E1. apply mem_In in E1. congruence.
  - apply mem_In in E2. apply H in E2. apply mem_In in E2. congruence.
Qed.

Lemma dedup_ext l : forall s1 s2, (forall y, In y s1 <-> In y s2) -> dedup s1 l = dedup s2 l.
Proof.
  induction l as [|x t IH]; intros s1 s2 H; simpl; [reflexivity|].
  rewrite (mem_ext s1 s2 x H). destruct (mem x s2).
  - apply IH, H.
  - f_equal. apply IH. intros y; simpl. rewrite H. tauto.
Qed.

(* the transcribed nested loops compute the ordered-set union *)
Lemma add_msgs_spec es : forall l, add_msgs l es = spec_add l es.
Proof.
  unfold add_msgs, spec_add.
  induction es as [|[m|] t IH]; intros l; simpl.
  - now rewrite app_nil_r.
  - rewrite reported_mem. destruct (mem m l) eqn:E.
    + apply IH.
    + rewrite IH, <- app_assoc. simpl. do 2 f_equal.
      apply dedup_ext. intros y. rewrite in_app_iff. simpl. tauto.
  - apply IH.
Qed.

(* ---- what spec_add means, declaratively ---- *)

Lemma dedup_In l : forall seen x, In x (dedup seen l) <-> In x l /\ ~ In x seen.
Proof.
  induction l as [|y t IH]; intros seen x; simpl; [tauto|].
  destruct (mem y seen) eqn:E.
  - rewrite IH. apply mem_In in E. intuition congruence.
  - apply mem_false_In in E. simpl. rewrite IH. simpl.
    destruct (Z.eq_dec y x) as [->|Hne]; intuition congruence.
Qed.

Lemma dedup_NoDup l : forall seen, NoDup (dedup seen l).
Proof.
  induction l as [|y t IH]; intros seen; simpl; [constructor|].
  destruct (mem y seen); [apply IH|]. constructor; [|apply IH].
  rewrite dedup_In. simpl. tauto.
Qed.

(* sublist: order of first occurrences is the order in the argument list *)
Inductive sublist {T} : list T -> list T -> Prop :=
| sub_nil : sublist [] []
| sub_skip x l1 l2 : sublist l1 l2 -> sublist l1 (x :: l2)
| sub_keep x l1 l2 : sublist l1 l2 -> sublist (x :: l1) (x :: l2).

Lemma dedup_sublist l : forall seen, sublist (dedup seen l) l.
Proof.
  induction l as [|y t IH]; intros seen; simpl; [constructor|].
  destruct (mem y seen); [apply sub_skip|apply sub_keep]; apply IH.
Qed.

Lemma spec_add_NoDup l es : NoDup l -> NoDup (spec_add l es).
Proof.
  intros H. unfold spec_add. induction l as [|x t IH] in H |- *; simpl.
  - apply dedup_NoDup.
  - inversion H as [|? ? Hx Ht]; subst. constructor.
    + rewrite in_app_iff, dedup_In. simpl. tauto.
    + assert (E : dedup (x :: t) (somes es) = dedup (x :: t) (somes es)) by reflexivity.
      (* t ++ dedup (x::t) .. is NoDup: members of the tail avoid x::t *)
      clear IH E. induction t as [|y t' IHt] in Ht, Hx |- *; simpl.
      * apply dedup_NoDup.
      * inversion Ht as [|? ? Hy Ht']; subst. constructor.
        -- rewrite in_app_iff, dedup_In. simpl. tauto.
        -- assert (Hx' : ~ In x t') by (simpl in Hx; tauto).
           specialize (IHt Hx' Ht').
           (* same set of "seen" up to membership of y, which is excluded anyway: use NoDup of app *)
           clear IHt.
           assert (G : forall s, (forall z, In z t' -> In z s) -> NoDup t' -> NoDup (t' ++ dedup s (somes es))).
           { clear. intros s Hs Hn. induction t' as [|a t'' IH] in Hs, Hn |- *; simpl.
             - apply dedup_NoDup.
             - inversion Hn; subst. constructor.
               + rewrite in_app_iff, dedup_In. intros [H|[_ H]]; auto. apply H, Hs. now left.
               + apply IH; auto. intros z Hz. apply Hs. now right. }
           apply G; auto. intros z Hz. simpl. auto.
Qed.

Lemma somes_In m es : In m (somes es) <-> In (Some m) es.
Proof.
  induction es as [|[x|] t IH]; simpl; [tauto| |].
  - rewrite IH. split; intros [H|H]; auto; [left; congruence|left; congruence].
  - rewrite IH. split; [auto|]. intros [H|H]; [discriminate|auto].
Qed.

(* membership: nothing lost, nothing invented, nils ignored *)
Lemma spec_add_In l es m : In m (spec_add l es) <-> In m l \/ In (Some m) es.
Proof.
  unfold spec_add. rewrite in_app_iff, dedup_In, somes_In.
  destruct (in_dec Z.eq_dec m l); tauto.
Qed.

(* first-occurrence order: the old set is a prefix, new members come in the order of es *)
Lemma spec_add_prefix l es : exists new, spec_add l es = l ++ new /\ sublist new (somes es) /\ NoDup new.
Proof.
  exists (dedup l (somes es)). split; [reflexivity|]. split; [apply dedup_sublist|apply dedup_NoDup].
Qed.

(* adding what is already there changes nothing (idempotence) *)
Lemma spec_add_idem l es : (forall m, In (Some m) es -> In m l) -> spec_add l es = l.
Proof.
  intros H. unfold spec_add.
  assert (E : dedup l (somes es) = []).
  { assert (H' : forall m, In m (somes es) -> In m l) by (intros m; rewrite somes_In; apply H).
    clear H. induction (somes es) as [|x t IH]; simpl; [reflexivity|].
    assert (Hx : mem x l = true) by (apply mem_In, H'; now left). rewrite Hx.
    apply IH. intros m Hm. apply H'. now right. }
  rewrite E. apply app_nil_r.
Qed.

(* ------------------------------------------------------------------ *)
(* L0 on results and histories                                          *)

Definition s_merge (r o : result) : result :=
  mkResult (spec_add (errs r) (map Some (errs o))) (spec_add (warns r) (map Some (warns o))) (mc r + mc o).
Definition s_merge_as_errors (r o : result) : result :=
  mkResult (spec_add (spec_add (errs r) (map Some (errs o))) (map Some (warns o))) (warns r) (mc r + mc o).
Definition s_merge_as_warnings (r o : result) : result :=
  mkResult (errs r) (spec_add (spec_add (warns r) (map Some (errs o))) (map Some (warns o))) (mc r + mc o).

Definition spec_step (st : state) (o : op) : state :=
  match o with
  | OAddErrors v es => upd st v (fun r => mkResult (spec_add (errs r) es) (warns r) (mc r))
  | OAddWarnings v es => upd st v (fun r => mkResult (errs r) (spec_add (warns r) es) (mc r))
  | OMerge v ws => merge_with s_merge st v ws
  | OMergeAsErrors v ws => merge_with s_merge_as_errors st v ws
  | OMergeAsWarnings v ws => merge_with s_merge_as_warnings st v ws
  | OInc v => upd st v (fun r => mkResult (errs r) (warns r) (mc r + 1))
  | ONew v => set st v (Some (mkResult [] [] 0))
  | OSetNil v => set st v None
  end.

Lemma merge1_spec r o : merge1 r o = s_merge r o.
Proof. unfold merge1, s_merge, add_errors, add_warnings; simpl. now rewrite !add_msgs_spec. Qed.
Lemma merge_as_errors1_spec r o : merge_as_errors1 r o = s_merge_as_errors r o.
Proof. unfold merge_as_errors1, s_merge_as_errors, add_errors; simpl. now rewrite !add_msgs_spec. Qed.
Lemma merge_as_warnings1_spec r o : merge_as_warnings1 r o = s_merge_as_warnings r o.
Proof. unfold merge_as_warnings1, s_merge_as_warnings, add_warnings; simpl. now rewrite !add_msgs_spec. Qed.

Lemma merge_with_ext f g : (forall r o, f r o = g r o) ->
  forall ws st v, merge_with f st v ws = merge_with g st v ws.
Proof.
  intros H ws. unfold merge_with. induction ws as [|w t IH]; intros st v; simpl; [reflexivity|].
  destruct (get st v), (get st w); try apply IH. rewrite H. apply IH.
Qed.

Lemma step_spec st o : step st o = spec_step st o.
Proof.
  destruct o; simpl; try reflexivity.
  - unfold upd. destruct (get st v); [|reflexivity]. unfold add_errors. now rewrite add_msgs_spec.
  - unfold upd. destruct (get st v); [|reflexivity]. unfold add_warnings. now rewrite add_msgs_spec.
  - apply merge_with_ext, merge1_spec.
  - apply merge_with_ext, merge_as_errors1_spec.
  - apply merge_with_ext, merge_as_warnings1_spec.
Qed.

Fixpoint spec_trace (st : state) (ops : list op) : list state :=
  match ops with
  | [] => []
  | o :: os => let st' := spec_step st o in st' :: spec_trace st' os
  end.

(* refinement: every observable state of every history *)
Theorem refines_ordered_sets : forall ops st, trace st ops = spec_trace st ops.
Proof.
  induction ops as [|o os IH]; intros st; simpl; [reflexivity|].
  rewrite step_spec. f_equal. apply IH.
Qed.

Corollary run_refines ops : fold_left step ops init = fold_left spec_step ops init.
Proof.
  generalize init. induction ops as [|o os IH]; intros st; simpl; [reflexivity|].
  rewrite step_spec. apply IH.
Qed.

(* ------------------------------------------------------------------ *)
(* Invariant over all histories: no duplicates, ever                    *)

Definition wf_result (r : result) : Prop := NoDup (errs r) /\ NoDup (warns r).
Definition wf_state (st : state) : Prop := forall v r, get st v = Some r -> wf_result r.

Lemma get_set_same st v x : (v < length st)%nat -> get (set st v x) v = x.
Proof.
  unfold get. revert v. induction st as [|h t IH]; intros v Hv; simpl in *; [lia|].
  destruct v; simpl; [reflexivity|]. apply IH. lia.
Qed.

Lemma get_set_other st v w x : v <> w -> get (set st v x) w = get st w.
Proof.
  unfold get. revert v w. induction st as [|h t IH]; intros v w Hne; simpl; [reflexivity|].
  destruct v, w; simpl; try reflexivity; try congruence. apply IH. congruence.
Qed.

Lemma set_length st v x : length (set st v x) = length st.
Proof. revert v. induction st as [|h t IH]; intros v; simpl; [reflexivity|]. destruct v; simpl; auto. Qed.

Lemma get_set_cases st v w x r :
  get (set st v x) w = Some r -> (v = w /\ x = Some r) \/ get st w = Some r.
Proof.
  intros H. destruct (Nat.eq_dec v w) as [->|Hne].
  - destruct (Nat.lt_ge_cases w (length st)) as [Hl|Hl].
    + rewrite get_set_same in H by assumption. auto.
    + right. unfold get in *. rewrite nth_overflow in H by (rewrite set_length; lia). discriminate.
  - rewrite get_set_other in H by assumption. auto.
Qed.

Lemma wf_set st v x : wf_state st -> (forall r, x = Some r -> wf_result r) -> wf_state (set st v x).
Proof.
  intros Hst Hx w r Hg. apply get_set_cases in Hg as [[_ ->]|Hg]; eauto.
Qed.

Lemma wf_s_merge r o : wf_result r -> wf_result (s_merge r o).
Proof. intros [H1 H2]. split; simpl; apply spec_add_NoDup; assumption. Qed.
Lemma wf_s_merge_as_errors r o : wf_result r -> wf_result (s_merge_as_errors r o).
Proof. intros [H1 H2]. split; simpl; [do 2 apply spec_add_NoDup|]; assumption. Qed.
Lemma wf_s_merge_as_warnings r o : wf_result r -> wf_result (s_merge_as_warnings r o).
Proof. intros [H1 H2]. split; simpl; [|do 2 apply spec_add_NoDup]; assumption. Qed.

Lemma wf_merge_with f : (forall r o, wf_result r -> wf_result (f r o)) ->
  forall ws st v, wf_state st -> wf_state (merge_with f st v ws).
Proof.
  intros Hf ws. unfold merge_with. induction ws as [|w t IH]; intros st v Hst; simpl; [assumption|].
  destruct (get st v) as [r|] eqn:Ev, (get st w) as [o|] eqn:Ew; try (apply IH; assumption).
  apply IH. apply wf_set; [assumption|]. intros r' E; injection E as <-. apply Hf. eapply Hst; eassumption.
Qed.

Lemma wf_upd st v f : wf_state st -> (forall r, wf_result r -> wf_result (f r)) -> wf_state (upd st v f).
Proof.
  intros Hst Hf. unfold upd. destruct (get st v) as [r|] eqn:E; [|assumption].
  apply wf_set; [assumption|]. intros r' E'; injection E' as <-. apply Hf. eapply Hst; eassumption.
Qed.

Lemma wf_spec_step st o : wf_state st -> wf_state (spec_step st o).
Proof.
  intros Hst. destruct o; simpl.
  - apply wf_upd; [assumption|]. intros r [H1 H2]; split; simpl; [apply spec_add_NoDup|]; assumption.
  - apply wf_upd; [assumption|]. intros r [H1 H2]; split; simpl; [|apply spec_add_NoDup]; assumption.
  - apply wf_merge_with; [apply wf_s_merge|assumption].
  - apply wf_merge_with; [apply wf_s_merge_as_errors|assumption].
  - apply wf_merge_with; [apply wf_s_merge_as_warnings|assumption].
  - apply wf_upd; [assumption|]. intros r H; exact H.
  - apply wf_set; [assumption|]. intros r E; injection E as <-. split; constructor.
  - apply wf_set; [assumption|]. discriminate.
Qed.

Lemma wf_init : wf_state init.
Proof.
  intros v r H. unfold get, init in H. exfalso.
  assert (G : forall n v, nth v (repeat (@None result) n) None = None).
  { clear. induction n; intros [|v]; simpl; auto. }
  rewrite G in H. discriminate.
Qed.

Theorem never_duplicates : forall ops, wf_state (fold_left step ops init).
Proof.
  intros ops. rewrite run_refines. generalize wf_init. generalize init.
  induction ops as [|o os IH]; intros st Hst; simpl; [assumption|].
  apply IH, wf_spec_step, Hst.
Qed.

(* ------------------------------------------------------------------ *)
(* Single-operand laws used throughout the validators                   *)

Theorem merge_no_loss r o m :
  (In m (errs (merge1 r o)) <-> In m (errs r) \/ In m (errs o)) /\
  (In m (warns (merge1 r o)) <-> In m (warns r) \/ In m (warns o)).
Proof.
  rewrite merge1_spec. simpl. rewrite !spec_add_In, !in_map_iff.
  split; (split; [intros [H|[x [E H]]]; [auto|injection E as ->; auto]|intros [H|H]; [auto|right; eauto]]).
Qed.

Theorem merge_matchcount_additive r o : mc (merge1 r o) = mc r + mc o.
Proof. reflexivity. Qed.

Theorem merge_as_errors_moves_all r o m :
  (In m (errs (merge_as_errors1 r o)) <-> In m (errs r) \/ In m (errs o) \/ In m (warns o)) /\
  warns (merge_as_errors1 r o) = warns r /\ mc (merge_as_errors1 r o) = mc r + mc o.
Proof.
  rewrite merge_as_errors1_spec. simpl. rewrite !spec_add_In, !in_map_iff. split; [|auto].
  split.
  - intros [[H|[x [E H]]]|[x [E H]]]; auto; injection E as ->; auto.
  - intros [H|[H|H]]; eauto.
Qed.

Theorem merge_as_warnings_moves_all r o m :
  (In m (warns (merge_as_warnings1 r o)) <-> In m (warns r) \/ In m (errs o) \/ In m (warns o)) /\
  errs (merge_as_warnings1 r o) = errs r /\ mc (merge_as_warnings1 r o) = mc r + mc o.
Proof.
  rewrite merge_as_warnings1_spec. simpl. rewrite !spec_add_In, !in_map_iff. split; [|auto].
  split.
  - intros [[H|[x [E H]]]|[x [E H]]]; auto; injection E as ->; auto.
  - intros [H|[H|H]]; eauto.
Qed.

(* old messages keep their position: the receiver's list is a prefix of the new one *)
Theorem merge_keeps_order r o : exists e w, errs (merge1 r o) = errs r ++ e /\ warns (merge1 r o) = warns r ++ w.
Proof. rewrite merge1_spec. simpl. unfold spec_add. eauto. Qed.

Theorem valid_iff_no_errors r : is_valid (Some r) = true <-> errs r = [].
Proof. simpl. destruct (errs r); split; congruence. Qed.

Theorem nil_queries_total :
  is_valid None = true /\ has_errors None = false /\ has_warnings None = false /\ has_errors_or_warnings None = false.
Proof. repeat split. Qed.

Theorem merge_valid_iff r o : is_valid (Some (merge1 r o)) = true <-> is_valid (Some r) = true /\ is_valid (Some o) = true.
Proof.
  rewrite !valid_iff_no_errors. rewrite merge1_spec. simpl. unfold spec_add.
  split.
  - intros H. apply app_eq_nil in H as [H1 H2]. split; [assumption|].
    rewrite H1 in H2. destruct (errs o) as [|x t]; [reflexivity|]. simpl in H2. discriminate.
  - intros [-> ->]. reflexivity.
Qed.

(* ------------------------------------------------------------------ *)
(* Frame: an operation on v never changes what another variable holds,  *)
(* so later changes to an operand cannot alter a result it was merged   *)
(* into (value semantics of the model; pointer aliasing is what the     *)
(* correspondence check looks for in the implementation).               *)

Definition target (o : op) : nat :=
  match o with
  | OAddErrors v _ | OAddWarnings v _ | OMerge v _ | OMergeAsErrors v _ | OMergeAsWarnings v _
  | OInc v | ONew v | OSetNil v => v
  end.

Lemma merge_with_frame f ws : forall st v w, v <> w -> get (merge_with f st v ws) w = get st w.
Proof.
  unfold merge_with. induction ws as [|x t IH]; intros st v w Hne; simpl; [reflexivity|].
  destruct (get st v), (get st x); try (apply IH; assumption).
  rewrite IH by assumption. apply get_set_other, Hne.
Qed.

Theorem operands_independent st o w : target o <> w -> get (step st o) w = get st w.
Proof.
  destruct o; simpl; intros Hne;
    try (unfold upd; destruct (get st v); [apply get_set_other, Hne|reflexivity]);
    try (apply merge_with_frame, Hne); apply get_set_other, Hne.
Qed.

Corollary later_changes_do_not_reach v ops st :
  Forall (fun o => target o <> v) ops -> get (fold_left step ops st) v = get st v.
Proof.
  revert st. induction ops as [|o os IH]; intros st H; simpl; [reflexivity|].
  inversion H; subst. rewrite IH by assumption. apply operands_independent. assumption.
Qed.
