package main

// C14: the exported value helpers on arbitrary argument values.

import (
	"bufio"
	"context"
	"encoding/hex"
	"encoding/json"
	"fmt"
	"math"
	"math/rand"
	"reflect"
	"regexp"
	"sort"
	"strconv"
	"strings"
	"time"

	"github.com/go-openapi/strfmt"
	"github.com/go-openapi/validate"
)

// hv describes a Go value for a helper call.
type hv struct {
	K string `json:"k"`           // nil bool str int..uint64 float32 float64 slice nilslice map nilmap ptr nilptr opaque
	V string `json:"v,omitempty"` // scalar literal; strings are hex encoded bytes (may be invalid UTF-8)
	E string `json:"e,omitempty"` // element type of a slice
	L []hv   `json:"l,omitempty"` // slice elements
	M []hkv  `json:"m,omitempty"` // map members
}

type hkv struct {
	Key string `json:"key"` // hex
	Val hv     `json:"val"`
}

type h14Case struct {
	ID   int    `json:"id"`
	Fn   string `json:"fn"`
	Str  string `json:"str,omitempty"`  // hex
	Str2 string `json:"str2,omitempty"` // hex (pattern / format name)
	N    int64  `json:"n,omitempty"`
	N2   int64  `json:"n2,omitempty"`
	Val  *hv    `json:"val,omitempty"`
	Enum *hv    `json:"enum,omitempty"` // a slice value (or something else) passed as enum
	CS   bool   `json:"cs,omitempty"`   // caseSensitive
	Op   string `json:"op,omitempty"`   // request | response | none | junk
	F    string `json:"f,omitempty"`    // float literal
}

type henc struct {
	*enc
	strs  map[string]struct{}
	ints  map[int64]struct{}
	uints map[uint64]struct{}
	reg   strfmt.Registry // the registry the oracle tables are computed with (the one the call is given)
}

// a caller's registry: it knows "verif-even" (strings of even length) and "uuid", and nothing else
type evenStr string

func (e evenStr) String() string                { return string(e) }
func (e evenStr) MarshalText() ([]byte, error)  { return []byte(e), nil }
func (e *evenStr) UnmarshalText(b []byte) error { *e = evenStr(b); return nil }

var customRegistry = func() strfmt.Registry {
	r := strfmt.NewSeededFormats(nil, nil)
	var e evenStr
	r.Add("verif-even", &e, func(s string) bool { return len(s)%2 == 0 })
	var u strfmt.UUID
	r.Add("uuid", &u, func(s string) bool { return strfmt.Default.Validates("uuid", s) })
	return r
}()

// values of types outside the modelled kinds; the model knows of each only which one it is and whether it is the zero value
// of its type (what reflect.Zero of the type is deeply equal to). Different entries are never deeply equal.
var opaqueValues = []struct {
	v    interface{}
	zero bool
}{
	{complex128(0), true}, {complex(1, 2), false}, {(chan int)(nil), true}, {(func())(nil), true},
	{struct{}{}, true}, {struct{ A int }{A: 1}, false}, {time.Time{}, true},
	{time.Time{}.In(time.FixedZone("verif", 3600)), false}, // its IsZero method answers true; it is not the zero value
	{[2]int{}, true}, {[2]int{0, 1}, false},
	{&time.Time{}, false}, // a non-nil pointer
	{struct{ A int }{}, true},
}

type h14Key struct{}

func unhex(s string) string { b, _ := hex.DecodeString(s); return string(b) }
func tohex(s string) string { return hex.EncodeToString([]byte(s)) }

func (e *henc) sid(s string) int {
	e.strs[s] = struct{}{}
	return e.in.id(s)
}

func (h *hv) build(e *henc) (interface{}, string) {
	switch h.K {
	case "nil":
		return nil, "(0)"
	case "bool":
		b := h.V == "true"
		return b, fmt.Sprintf("(1 %d)", b2i(b))
	case "str":
		s := unhex(h.V)
		return s, fmt.Sprintf("(2 %d)", e.sid(s))
	case "float32":
		f, _ := strconv.ParseFloat(h.V, 32)
		return float32(f), fmt.Sprintf("(3 1 %d)", math.Float64bits(float64(float32(f))))
	case "float64":
		f, _ := strconv.ParseFloat(h.V, 64)
		return f, fmt.Sprintf("(3 0 %d)", math.Float64bits(f))
	case "slice", "nilslice":
		et := elemType(h.E)
		sl := reflect.MakeSlice(reflect.SliceOf(et), 0, len(h.L))
		if h.K == "nilslice" {
			sl = reflect.Zero(reflect.SliceOf(et))
		}
		parts := make([]string, 0, len(h.L))
		for i := range h.L {
			v, sx := h.L[i].build(e)
			parts = append(parts, sx)
			if v == nil {
				sl = reflect.Append(sl, reflect.Zero(et))
			} else {
				sl = reflect.Append(sl, reflect.ValueOf(v))
			}
		}
		if bs, ok := sl.Interface().([]byte); ok { // string([]byte) may be formed by a conversion
			e.sid(string(bs))
		}
		return sl.Interface(), fmt.Sprintf("(8 %d %d (%s))", elemCode(h.E), b2i(h.K == "nilslice"), strings.Join(parts, " "))
	case "map", "nilmap":
		var m map[string]interface{}
		if h.K == "map" {
			m = map[string]interface{}{}
		}
		var parts []string
		for i := range h.M {
			k := unhex(h.M[i].Key)
			if _, dup := m[k]; dup {
				continue
			}
			v, sx := h.M[i].Val.build(e)
			m[k] = v
			parts = append(parts, fmt.Sprintf("(%d %s)", e.sid(k), sx))
		}
		return m, fmt.Sprintf("(7 %d (%s))", b2i(h.K == "nilmap"), strings.Join(parts, " "))
	case "ptr":
		x := 7
		return &x, "(9 0)"
	case "nilptr":
		var p *int
		return p, "(9 1)"
	case "opaque":
		i, _ := strconv.Atoi(h.V)
		if i < 0 || i >= len(opaqueValues) {
			i = 0
		}
		return opaqueValues[i].v, fmt.Sprintf("(10 %d %d)", i, b2i(opaqueValues[i].zero))
	default:
		t, ok := kindTypes[h.K]
		if !ok {
			e.unsupported = "helper value kind " + h.K
			return nil, "(0)"
		}
		rv := reflect.New(t).Elem()
		if strings.HasPrefix(h.K, "uint") {
			u, _ := strconv.ParseUint(h.V, 10, 64)
			rv.SetUint(u)
			e.uints[rv.Uint()] = struct{}{}
			return rv.Interface(), fmt.Sprintf("(4 %d %d)", kindCodes[h.K], rv.Uint())
		}
		i, _ := strconv.ParseInt(h.V, 10, 64)
		rv.SetInt(i)
		e.ints[rv.Int()] = struct{}{}
		return rv.Interface(), fmt.Sprintf("(4 %d %d)", kindCodes[h.K], rv.Int())
	}
}

func (e *henc) horacles(patterns, formats []string) string {
	var strs []string
	for s := range e.strs {
		strs = append(strs, s)
	}
	// results of integer -> string conversions are strings of the case too
	var runes []string
	addRune := func(x int64, ok bool) {
		s := "�"
		if ok && int64(rune(x)) == x {
			s = string(rune(x))
		}
		runes = append(runes, fmt.Sprintf("(%d %d)", x, e.in.id(s)))
		if _, have := e.strs[s]; !have {
			e.strs[s] = struct{}{}
			strs = append(strs, s)
		}
	}
	for x := range e.ints {
		addRune(x, true)
	}
	for u := range e.uints {
		if _, dup := e.ints[int64(u)]; !dup || u > math.MaxInt64 {
			addRune(int64(u), u <= math.MaxInt64)
		}
	}
	sort.Strings(strs)
	sort.Strings(runes)
	var bytesT, reok, rematch, fknown, fcheck, fold []string
	for _, s := range strs {
		bs := make([]string, len(s))
		for i := 0; i < len(s); i++ {
			bs[i] = strconv.Itoa(int(s[i]))
		}
		bytesT = append(bytesT, fmt.Sprintf("(%d (%s))", e.in.id(s), strings.Join(bs, " ")))
	}
	for _, p := range patterns {
		re, err := regexp.Compile(p)
		if err != nil {
			continue
		}
		reok = append(reok, strconv.Itoa(e.in.id(p)))
		for _, s := range strs {
			if re.MatchString(s) {
				rematch = append(rematch, fmt.Sprintf("(%d %d)", e.in.id(p), e.in.id(s)))
			}
		}
	}
	reg := e.reg
	if reg == nil {
		reg = strfmt.Default
	}
	for _, f := range formats {
		if !reg.ContainsName(f) {
			continue
		}
		fknown = append(fknown, strconv.Itoa(e.in.id(f)))
		for _, s := range strs {
			if reg.Validates(f, s) {
				fcheck = append(fcheck, fmt.Sprintf("(%d %d)", e.in.id(f), e.in.id(s)))
			}
		}
	}
	for _, a := range strs {
		for _, b := range strs {
			if a != b && strings.EqualFold(a, b) {
				fold = append(fold, fmt.Sprintf("(%d %d)", e.in.id(a), e.in.id(b)))
			}
		}
	}
	j := func(l []string) string { return "(" + strings.Join(l, " ") + ")" }
	return "(" + j(bytesT) + " " + j(reok) + " " + j(rematch) + " " + j(fknown) + " " + j(fcheck) + " " + j(fold) + " " + j(runes) + ")"
}

func snapshot(v interface{}) string { return fmt.Sprintf("%#v", v) }

func h14Run(in *bufio.Scanner, out *bufio.Writer) {
	for in.Scan() {
		var c h14Case
		if err := json.Unmarshal(in.Bytes(), &c); err != nil {
			continue
		}
		e := &henc{enc: newEnc(), strs: map[string]struct{}{}, ints: map[int64]struct{}{}, uints: map[uint64]struct{}{}}
		rec := map[string]interface{}{"id": c.ID, "fn": c.Fn}
		var args string
		var call func() (int, int32) // (error? 0/1/..., code)
		var val, enum interface{}
		ev := func(x interface{ Code() int32 }, isnil bool) (int, int32) {
			if isnil {
				return 0, 0
			}
			return 1, x.Code()
		}
		var pats, fmts []string
		fnid := map[string]int{"MinLength": 0, "MaxLength": 1, "Pattern": 2, "UniqueItems": 3, "Enum": 4, "EnumCase": 4, "MinItems": 6,
			"MaxItems": 7, "Required": 8, "RequiredString": 9, "RequiredNumber": 10, "ReadOnly": 11, "FormatOf": 12}[c.Fn]
		switch c.Fn {
		case "MinLength":
			s := unhex(c.Str)
			args = fmt.Sprintf("%d %d", e.sid(s), c.N)
			call = func() (int, int32) { x := validate.MinLength("p", "query", s, c.N); return ev(x, x == nil) }
		case "MaxLength":
			s := unhex(c.Str)
			args = fmt.Sprintf("%d %d", e.sid(s), c.N)
			call = func() (int, int32) { x := validate.MaxLength("p", "query", s, c.N); return ev(x, x == nil) }
		case "Pattern":
			s, p := unhex(c.Str), unhex(c.Str2)
			pats = []string{p}
			args = fmt.Sprintf("%d %d", e.sid(s), e.in.id(p))
			call = func() (int, int32) { x := validate.Pattern("p", "query", s, p); return ev(x, x == nil) }
		case "UniqueItems":
			var sx string
			val, sx = c.Val.build(e)
			args = sx
			call = func() (int, int32) { x := validate.UniqueItems("p", "query", val); return ev(x, x == nil) }
		case "Enum", "EnumCase":
			var vsx, esx string
			val, vsx = c.Val.build(e)
			cs := c.CS || c.Fn == "Enum"
			if c.Enum.K == "slice" || c.Enum.K == "nilslice" {
				var parts []string
				et := elemType(c.Enum.E)
				sl := reflect.MakeSlice(reflect.SliceOf(et), 0, len(c.Enum.L))
				for i := range c.Enum.L {
					v, sx := c.Enum.L[i].build(e)
					parts = append(parts, sx)
					if v == nil {
						sl = reflect.Append(sl, reflect.Zero(et))
					} else {
						sl = reflect.Append(sl, reflect.ValueOf(v))
					}
				}
				enum = sl.Interface()
				esx = "((" + strings.Join(parts, " ") + "))"
			} else {
				enum, _ = c.Enum.build(e)
				esx = "()"
			}
			args = fmt.Sprintf("%s %s %d", vsx, esx, b2i(cs))
			if c.Fn == "Enum" {
				call = func() (int, int32) { x := validate.Enum("p", "query", val, enum); return ev(x, x == nil) }
			} else {
				call = func() (int, int32) { x := validate.EnumCase("p", "query", val, enum, c.CS); return ev(x, x == nil) }
			}
		case "MinItems":
			args = fmt.Sprintf("%d %d", c.N, c.N2)
			call = func() (int, int32) { x := validate.MinItems("p", "query", c.N, c.N2); return ev(x, x == nil) }
		case "MaxItems":
			args = fmt.Sprintf("%d %d", c.N, c.N2)
			call = func() (int, int32) { x := validate.MaxItems("p", "query", c.N, c.N2); return ev(x, x == nil) }
		case "Required":
			var sx string
			val, sx = c.Val.build(e)
			args = sx
			call = func() (int, int32) { x := validate.Required("p", "query", val); return ev(x, x == nil) }
		case "RequiredString":
			s := unhex(c.Str)
			args = fmt.Sprintf("%d", e.sid(s))
			call = func() (int, int32) { x := validate.RequiredString("p", "query", s); return ev(x, x == nil) }
		case "RequiredNumber":
			f, _ := strconv.ParseFloat(c.F, 64)
			args = fmt.Sprintf("%d", math.Float64bits(f))
			call = func() (int, int32) { x := validate.RequiredNumber("p", "query", f); return ev(x, x == nil) }
		case "ReadOnly":
			var sx string
			val, sx = c.Val.build(e)
			// the context is tagged step by step ("response>request": a response context re-tagged as a request): the last tag counts
			ctx := context.Background()
			last := "none"
			for _, op := range strings.Split(c.Op, ">") {
				switch op {
				case "request":
					ctx = validate.WithOperationRequest(ctx)
					last = op
				case "response":
					ctx = validate.WithOperationResponse(ctx)
					last = op
				case "junk": // an unrelated value in the context
					ctx = context.WithValue(ctx, h14Key{}, "request")
				case "cancel":
					var cancel context.CancelFunc
					ctx, cancel = context.WithCancel(ctx)
					defer cancel()
				}
			}
			args = fmt.Sprintf("%d %s", b2i(last == "request"), sx)
			call = func() (int, int32) { x := validate.ReadOnly(ctx, "p", "query", val); return ev(x, x == nil) }
		case "FormatOf":
			f, s := unhex(c.Str2), unhex(c.Str)
			fmts = []string{f}
			args = fmt.Sprintf("%d %d", e.in.id(f), e.sid(s))
			var reg strfmt.Registry = strfmt.Default
			if c.Op == "custom" {
				reg = customRegistry
			}
			e.reg = reg
			call = func() (int, int32) {
				x := validate.FormatOf("p", "query", f, s, reg)
				if x == nil {
					return 0, 0
				}
				if x.Name == "" { // InvalidTypeName carries no name
					return 1, x.Code()
				}
				return 2, x.Code()
			}
		default:
			rec["skip"] = "unknown helper " + c.Fn
		}
		if call != nil && e.unsupported == "" {
			before := snapshot(val) + "|" + snapshot(enum)
			obs := func() (o map[string]interface{}) {
				defer func() {
					if r := recover(); r != nil {
						o = map[string]interface{}{"outcome": "panic", "panic": fmt.Sprint(r)}
					}
				}()
				a1, c1 := call()
				a2, c2 := call()
				return map[string]interface{}{"outcome": "ok", "err": a1, "code": c1, "repeat_same": a1 == a2 && c1 == c2}
			}()
			obs["args_untouched"] = before == snapshot(val)+"|"+snapshot(enum)
			rec["go"] = obs
			rec["sx"] = fmt.Sprintf("(%s %d %s)", e.horacles(pats, fmts), fnid, args)
		} else if e.unsupported != "" {
			rec["skip"] = e.unsupported
		}
		b, _ := json.Marshal(rec)
		out.Write(b)
		out.WriteString("\n")
	}
}

// ---- generator ----

type hgen struct{ rng *rand.Rand }

func (g *hgen) pick(l []string) string { return l[g.rng.Intn(len(l))] }

var hStrings = []string{"", "a", "A", "ab", "AB", "aB", "abc", "héllo", "HÉLLO", "日本", "日本語", "x-1", "2020-01-01", "ſ", "s", "S", "K", "K",
	"\xff", "a\xffb", "\xc3", "\xe6\x97", "\xed\xa0\x80", "\xf4\x90\x80\x80", "\xc0\x80", "é\xe6", "\xf0\x9f\x98\x80", "user@example.com", "\xf0\x9f\x98\x80\xf0\x9f\x98\x80\xf0\x9f\x98\x80", "a\xf0\x9f\x98\x80b\xf0\x9f\x98\x81", "\xf0\x9d\x92\xb3\xf0\x9d\x92\xb4", "日本語日本語", "ééééé", "\xf0\x9f\x98\x80\xf0\x9f\x98\x80\xf0\x9f\x98\x80\xf0\x9f\x98\x80\xf0\x9f\x98\x80", "97", "á"}

func (g *hgen) str() string { return tohex(g.pick(hStrings)) }

func (g *hgen) scalar() hv {
	switch g.rng.Intn(7) {
	case 0:
		return hv{K: "bool", V: g.pick([]string{"true", "false"})}
	case 1, 2:
		return hv{K: "str", V: g.str()}
	case 3:
		return hv{K: g.pick([]string{"float32", "float64"}), V: g.pick([]string{"0", "-0", "1", "1.5", "97", "2.5", "-1", "256", "1e10", "0.1", "3.9", "-3.9", "4294967296"})}
	default:
		k := g.pick(intKinds)
		lits := []string{"0", "1", "2", "3", "97", "65", "127", "200", "255"}
		if !strings.HasPrefix(k, "uint") {
			lits = append(lits, "-1", "-56")
		}
		if strings.HasSuffix(k, "16") || strings.HasSuffix(k, "32") || strings.HasSuffix(k, "64") || k == "int" || k == "uint" {
			lits = append(lits, "256", "300", "26085", "1114112")
		}
		lit := g.pick(lits)
		if k == "int8" && (lit == "200" || lit == "255") {
			lit = "-56"
		}
		if g.rng.Intn(4) == 0 { // the edges of the kind: where a conversion to another kind wraps around
			edges := map[string][]string{
				"int8": {"-1", "-128", "127"}, "int16": {"-1", "-32768", "32767"}, "int32": {"-1", "-2147483648", "2147483647"},
				"int64": {"-1", "-9223372036854775808", "9223372036854775807"}, "int": {"-1", "-9223372036854775808", "9223372036854775807"},
				"uint8": {"255", "128"}, "uint16": {"65535", "32768"}, "uint32": {"4294967295", "2147483648"},
				"uint64": {"18446744073709551615", "9223372036854775808"}, "uint": {"18446744073709551615", "9223372036854775808"},
			}
			if l, ok := edges[k]; ok {
				lit = g.pick(l)
			}
		}
		return hv{K: k, V: lit}
	}
}

func (g *hgen) value(depth int) hv {
	k := g.rng.Intn(12)
	if depth <= 0 && k >= 7 {
		k = g.rng.Intn(7)
	}
	switch {
	case k < 6:
		return g.scalar()
	case k == 6:
		if g.rng.Intn(3) == 0 {
			return hv{K: "opaque", V: strconv.Itoa(g.rng.Intn(len(opaqueValues)))}
		}
		return hv{K: g.pick([]string{"nil", "nilptr", "ptr", "nilmap"})}
	case k < 10:
		e := g.pick([]string{"iface", "iface", "string", "int", "int64", "float64", "uint8", "ptrint"})
		if g.rng.Intn(8) == 0 {
			return hv{K: "nilslice", E: e}
		}
		n := g.rng.Intn(4)
		s := hv{K: "slice", E: e}
		for i := 0; i < n; i++ {
			var el hv
			switch e {
			case "iface":
				el = g.value(depth - 1)
			case "string":
				el = hv{K: "str", V: g.str()}
			case "float64":
				el = hv{K: "float64", V: g.pick([]string{"0", "1", "1.5", "2"})}
			case "ptrint": // distinct pointers to equal ints, or nil pointers: equal under deep value equality, not under ==
				el = hv{K: g.pick([]string{"ptr", "ptr", "nilptr"})}
			default:
				el = hv{K: e, V: g.pick([]string{"0", "1", "2", "97"})}
			}
			s.L = append(s.L, el)
		}
		return s
	default:
		m := hv{K: "map"}
		n := g.rng.Intn(3)
		for i := 0; i < n; i++ {
			m.M = append(m.M, hkv{Key: g.str(), Val: g.value(depth - 1)})
		}
		return m
	}
}

func h14Gen(seed int64, n int, tier string, out *bufio.Writer) {
	rng := rand.New(rand.NewSource(seed))
	g := &hgen{rng: rng}
	enc := json.NewEncoder(out)
	fns := []string{"MinLength", "MaxLength", "Pattern", "UniqueItems", "UniqueItems", "Enum", "Enum", "EnumCase", "EnumCase", "MinItems", "MaxItems",
		"Required", "Required", "RequiredString", "RequiredNumber", "ReadOnly", "ReadOnly", "FormatOf"}
	for id := 0; id < n; id++ {
		c := h14Case{ID: id, Fn: fns[rng.Intn(len(fns))]}
		switch c.Fn {
		case "MinLength", "MaxLength":
			c.Str = g.str()
			c.N = int64(rng.Intn(9))
		case "Pattern":
			c.Str = g.str()
			c.Str2 = tohex(g.pick([]string{"^a", "a+", "(", "^[a-z]+$", "日", "\\d+", "", "[", "^$", "é"}))
			if rng.Intn(2) == 0 {
				// a literal with and without anchors, case folding or quoting, against strings that contain it, start with it,
				// end with it or are it: a search is not an equality, a prefix test or a containment of the quoted text
				lit := g.pick([]string{"abc", "a", "日本", "a.c", "x-1", "active"})
				pat := g.pick([]string{"%s", "^%s", "%s$", "^%s$", "(?i)%s", "^(?i)%s$", "\\Q%s\\E", "^\\Q%s\\E$", "(%s)", "^%s|zz$"})
				c.Str2 = tohex(fmt.Sprintf(pat, lit))
				dat := g.pick([]string{"%s", "x%sx", "%sd", "z%s", "not-%s", "%s\n", "\n%s", "", "ABC", "aXc"})
				if strings.Contains(dat, "%s") {
					dat = fmt.Sprintf(dat, lit)
				}
				c.Str = tohex(dat)
			}
		case "UniqueItems":
			v := g.value(2)
			if rng.Intn(4) != 0 && v.K != "slice" {
				v = hv{K: "slice", E: "iface"}
				for i := rng.Intn(5); i > 0; i-- {
					v.L = append(v.L, g.value(1))
				}
			}
			if v.K == "slice" && len(v.L) > 0 && rng.Intn(3) == 0 { // force a duplicate
				v.L = append(v.L, v.L[rng.Intn(len(v.L))])
			}
			c.Val = &v
		case "Enum", "EnumCase":
			v := g.value(1)
			c.Val = &v
			en := hv{K: "slice", E: g.pick([]string{"iface", "iface", "iface", "string", "int", "float64"})}
			for i := rng.Intn(4); i > 0; i-- {
				switch en.E {
				case "iface":
					en.L = append(en.L, g.value(1))
				case "string":
					en.L = append(en.L, hv{K: "str", V: g.str()})
				case "int":
					en.L = append(en.L, hv{K: "int", V: g.pick([]string{"0", "1", "2", "97"})})
				default:
					en.L = append(en.L, hv{K: "float64", V: g.pick([]string{"0", "1", "1.5", "97"})})
				}
			}
			if rng.Intn(3) == 0 && en.E == "iface" { // make membership likely
				en.L = append(en.L, v)
			}
			if rng.Intn(15) == 0 {
				en = hv{K: "str", V: g.str()} // not a slice at all
			}
			if rng.Intn(6) == 0 {
				// a value and an enumeration member of different integer kinds whose bit patterns coincide after a conversion
				// (a negative signed value against the unsigned value it wraps to, in every combination of widths)
				signed := map[string][]string{"int8": {"-1", "-128"}, "int16": {"-1", "-32768"}, "int32": {"-1", "-2147483648"},
					"int64": {"-1", "-9223372036854775808"}, "int": {"-1"}}
				wraps := map[string]map[string]string{
					"-1":                   {"uint8": "255", "uint16": "65535", "uint32": "4294967295", "uint64": "18446744073709551615", "uint": "18446744073709551615"},
					"-128":                 {"uint8": "128", "uint16": "65408", "uint32": "4294967168", "uint64": "18446744073709551488", "uint": "18446744073709551488"},
					"-32768":               {"uint8": "0", "uint16": "32768", "uint32": "4294934528", "uint64": "18446744073709518848", "uint": "18446744073709518848"},
					"-2147483648":          {"uint8": "0", "uint16": "0", "uint32": "2147483648", "uint64": "18446744071562067968", "uint": "18446744071562067968"},
					"-9223372036854775808": {"uint8": "0", "uint16": "0", "uint32": "0", "uint64": "9223372036854775808", "uint": "9223372036854775808"},
				}
				sk := g.pick([]string{"int8", "int16", "int32", "int64", "int"})
				sv := g.pick(signed[sk])
				uk := g.pick([]string{"uint8", "uint16", "uint32", "uint64", "uint"})
				a, b := hv{K: sk, V: sv}, hv{K: uk, V: wraps[sv][uk]}
				if rng.Intn(2) == 0 {
					a, b = b, a
				}
				v = a
				c.Val = &v
				en = hv{K: "slice", E: "iface", L: []hv{b}}
			}
			c.Enum = &en
			c.CS = rng.Intn(2) == 0
		case "MinItems", "MaxItems":
			c.N = int64(rng.Intn(6))
			c.N2 = int64(rng.Intn(6))
		case "Required":
			v := g.value(1)
			c.Val = &v
		case "RequiredString":
			c.Str = g.str()
		case "RequiredNumber":
			c.F = g.pick([]string{"0", "-0", "1", "1e-300", "5e-324", "-1"})
		case "ReadOnly":
			v := g.value(1)
			c.Val = &v
			c.Op = g.pick([]string{"request", "request", "response", "none", "response>request", "request>response", "junk>request", "request>junk",
				"request>cancel", "response>request>response", "none>response>junk>request", "junk"})
		case "FormatOf":
			c.Str = g.str()
			c.Str2 = tohex(g.pick([]string{"date", "email", "uuid", "nope", "", "date-time", "verif-even"}))
			if rng.Intn(3) == 0 {
				c.Op = "custom"
			}
		}
		_ = enc.Encode(c)
	}
}

func init() {
	props["h14"] = propCmd{gen: h14Gen, run: h14Run}
}
