package main

// C15 / C05: sequential histories and concurrent runs (the binary is also built with -race).

import (
	"bufio"
	"encoding/json"
	"fmt"
	"os"
	"path/filepath"
	"regexp"
	"runtime"
	"sort"
	"strings"
	"sync"

	"github.com/go-openapi/loads"
	"github.com/go-openapi/strfmt"
	"github.com/go-openapi/validate"
)

// ---------------------------------------------------------------- C15: the regexp cache

type rexpOp struct {
	Via string `json:"via"` // Pattern | schema | patprops | closed
	P   string `json:"p"`
	S   string `json:"s"`
	P2  string `json:"p2,omitempty"` // closed: a second patternProperties key next to P, additionalProperties: false
	// Fresh (C05): the concurrent run uses the equivalent pattern (?:P), which nothing has compiled yet, so that
	// the cache is written while other goroutines read it (the sequential reference has cached P itself)
	Fresh bool `json:"fresh,omitempty"`
}

type rexpCase struct {
	ID         int      `json:"id"`
	Ops        []rexpOp `json:"ops"`
	Goroutines int      `json:"goroutines,omitempty"` // > 0: the ops are dealt round-robin to that many goroutines
	Procs      int      `json:"procs,omitempty"`
}

// usePattern applies pattern p to s through one of the library's entry points; returns "match", "nomatch" or "invalid"
func usePattern(op rexpOp) string {
	switch op.Via {
	case "Pattern":
		e := validate.Pattern("p", "body", op.S, op.P)
		if e == nil {
			return "match"
		}
		if strings.Contains(e.Error(), "but pattern is invalid") {
			return "invalid"
		}
		return "nomatch"
	case "schema":
		sch := fmt.Sprintf(`{"type":"string","pattern":%s}`, mustJSON(op.P))
		s, err := parseSchema([]byte(sch))
		if err != nil {
			return "undecodable"
		}
		e := validate.AgainstSchema(s, op.S, strfmt.Default)
		if e == nil {
			return "match"
		}
		if strings.Contains(e.Error(), "but pattern is invalid") {
			return "invalid"
		}
		return "nomatch"
	case "closed": // a closed object with two patternProperties: the member is allowed iff one of the two (valid) patterns matches its name
		sch := fmt.Sprintf(`{"additionalProperties":false,"patternProperties":{%s:{},%s:{}}}`, mustJSON(op.P), mustJSON(op.P2))
		if op.P == op.P2 {
			sch = fmt.Sprintf(`{"additionalProperties":false,"patternProperties":{%s:{}}}`, mustJSON(op.P))
		}
		s, err := parseSchema([]byte(sch))
		if err != nil {
			return "undecodable"
		}
		if e := validate.AgainstSchema(s, map[string]interface{}{op.S: 1}, strfmt.Default); e == nil {
			return "match"
		}
		return "nomatch"
	default: // patternProperties: a matching member must be an integer, the member is a string
		sch := fmt.Sprintf(`{"patternProperties":{%s:{"type":"integer"}}}`, mustJSON(op.P))
		s, err := parseSchema([]byte(sch))
		if err != nil {
			return "undecodable"
		}
		e := validate.AgainstSchema(s, map[string]interface{}{op.S: "x"}, strfmt.Default)
		if e == nil {
			// either the pattern is invalid (ignored) or the member name does not match
			if _, cerr := regexp.Compile(op.P); cerr != nil {
				return "invalid"
			}
			return "nomatch"
		}
		return "match"
	}
}

func mustJSON(s string) string { b, _ := json.Marshal(s); return string(b) }

func expectPattern(op rexpOp) string {
	if op.Via == "closed" {
		for _, p := range []string{op.P, op.P2} {
			if re, err := regexp.Compile(p); err == nil && re.MatchString(op.S) {
				return "match"
			}
		}
		return "nomatch"
	}
	re, err := regexp.Compile(op.P) // a private, fresh compilation of that very pattern
	if err != nil {
		return "invalid"
	}
	if op.Via == "schema" && op.P == "" {
		return "match" // an empty pattern keyword is no constraint
	}
	if re.MatchString(op.S) {
		return "match"
	}
	return "nomatch"
}

func rexpRun(in *bufio.Scanner, out *bufio.Writer) {
	for in.Scan() {
		var c rexpCase
		if err := json.Unmarshal(in.Bytes(), &c); err != nil {
			continue
		}
		rec := map[string]interface{}{"id": c.ID}
		validate.VerifResetRegexpCache()
		pvalid := make([]bool, len(c.Ops)) // does Go's regexp accept the pattern of each operation (private compilation)
		for i, op := range c.Ops {
			_, err := regexp.Compile(op.P)
			pvalid[i] = err == nil
		}
		rec["pattern_valid"] = pvalid
		pvalid2 := make([]bool, len(c.Ops))
		for i, op := range c.Ops {
			_, err := regexp.Compile(op.P2)
			pvalid2[i] = err == nil
		}
		rec["pattern2_valid"] = pvalid2
		var wrong []map[string]interface{}
		var keyErrs []string
		checkKeys := func() ([]string, bool) {
			keys, srcs := validate.VerifRegexpCacheKeys()
			ok := true
			for i := range keys {
				if keys[i] != srcs[i] {
					ok = false
					keyErrs = append(keyErrs, fmt.Sprintf("entry %q holds the expression %q", keys[i], srcs[i]))
				}
			}
			return keys, ok
		}
		if c.Goroutines <= 0 {
			var keyTrace [][]string
			for i, op := range c.Ops {
				got, want := usePattern(op), expectPattern(op)
				if got != want {
					wrong = append(wrong, map[string]interface{}{"op": i, "got": got, "want": want})
				}
				keys, _ := checkKeys()
				keyTrace = append(keyTrace, keys)
			}
			rec["keys"] = keyTrace
		} else {
			if c.Procs > 0 {
				defer runtime.GOMAXPROCS(runtime.GOMAXPROCS(c.Procs))
			}
			var mu sync.Mutex
			var wg sync.WaitGroup
			for g := 0; g < c.Goroutines; g++ {
				wg.Add(1)
				go func(g int) {
					defer wg.Done()
					for i := g; i < len(c.Ops); i += c.Goroutines {
						got, want := usePattern(c.Ops[i]), expectPattern(c.Ops[i])
						if got != want {
							mu.Lock()
							wrong = append(wrong, map[string]interface{}{"op": i, "got": got, "want": want, "goroutine": g})
							mu.Unlock()
						}
						if i%3 == 0 {
							runtime.Gosched()
						}
					}
				}(g)
			}
			wg.Wait()
			keys, _ := checkKeys()
			rec["keys"] = [][]string{keys}
		}
		rec["wrong"] = wrong
		rec["key_errors"] = keyErrs
		b, _ := json.Marshal(rec)
		out.Write(b)
		out.WriteString("\n")
	}
}

// ---------------------------------------------------------------- C05: concurrent validations

type concCall struct {
	Kind   string          `json:"kind"` // oneshot | shared | param | spec | setopt | pattern | helper
	Schema *schemaCase     `json:"schema,omitempty"`
	Simple *simpleCase     `json:"simple,omitempty"`
	Shared int             `json:"shared,omitempty"` // index of the shared long-lived validator
	Value  json.RawMessage `json:"value,omitempty"`
	Spec   string          `json:"spec,omitempty"` // fixture path relative to /repo
	Flag   bool            `json:"flag,omitempty"`
	Rexp   *rexpOp         `json:"rexp,omitempty"`
	NilSch bool            `json:"nil_schema,omitempty"` // oneshot: validate.AgainstSchema(nil, ...), accepted by the API
}

type concCase struct {
	ID      int          `json:"id"`
	Shared  []schemaCase `json:"shared"`  // schemas of the shared non-recycling validators (no $ref)
	Threads [][]concCall `json:"threads"` // one program per goroutine
	Procs   int          `json:"procs,omitempty"`
}

var specCache sync.Map // path -> []byte
var specRef = map[string]callOutcome{}

func loadSpecBytes(rel string) ([]byte, error) {
	if b, ok := specCache.Load(rel); ok {
		return b.([]byte), nil
	}
	repo := os.Getenv("VERIF_REPO")
	if repo == "" {
		repo = "/repo"
	}
	b, err := os.ReadFile(filepath.Join(repo, rel))
	if err != nil {
		return nil, err
	}
	specCache.Store(rel, b)
	return b, nil
}

func specOutcome(rel string, cont bool) (o callOutcome) {
	defer func() {
		if r := recover(); r != nil {
			o = callOutcome{Outcome: "panic", Panic: panicClass(r) + ": " + fmt.Sprint(r), Msgs: []string{}}
		}
	}()
	raw, err := loadSpecBytes(rel)
	if err != nil {
		return callOutcome{Outcome: "unreadable", Msgs: []string{}}
	}
	doc, err := loads.Analyzed(json.RawMessage(raw), "")
	if err != nil {
		return callOutcome{Outcome: "unloadable", Msgs: []string{}}
	}
	v := validate.NewSpecValidator(doc.Schema(), strfmt.Default)
	v.SetContinueOnErrors(cont)
	errs, warns := v.Validate(doc)
	o = callOutcome{Outcome: "ok", Valid: errs.IsValid(), Msgs: []string{}}
	for _, e := range errs.Errors {
		o.Msgs = append(o.Msgs, "E:"+e.Error())
	}
	for _, e := range warns.Errors {
		o.Msgs = append(o.Msgs, "W:"+e.Error())
	}
	sort.Strings(o.Msgs)
	return o
}

func runConcCall(c *concCall, shared []*validate.SchemaValidator) callOutcome {
	switch c.Kind {
	case "oneshot":
		pc := poolCall{Kind: "oneshot", Schema: c.Schema, NilSch: c.NilSch}
		return runCall(&pc, true, nil)
	case "param":
		k := "param"
		if c.Simple.Header {
			k = "header"
		}
		pc := poolCall{Kind: k, Simple: c.Simple}
		return runCall(&pc, true, nil)
	case "shared":
		d, err := parseData(c.Value, false)
		if err != nil {
			return callOutcome{Outcome: "undecodable", Msgs: []string{}}
		}
		return func() (o callOutcome) {
			defer func() {
				if r := recover(); r != nil {
					o = callOutcome{Outcome: "panic", Panic: fmt.Sprint(r), Msgs: []string{}}
				}
			}()
			return outcomeOf(shared[c.Shared].Validate(d))
		}()
	case "spec":
		return specOutcome(c.Spec, c.Flag)
	case "setopt":
		validate.SetContinueOnErrors(c.Flag)
		// a validator created now copies the package defaults
		_ = validate.NewSpecValidator(nil, strfmt.Default)
		return callOutcome{Outcome: "ok", Valid: true, Msgs: []string{}}
	case "pattern":
		got := usePattern(*c.Rexp)
		return callOutcome{Outcome: "ok", Valid: got == "match", Msgs: []string{got}}
	default:
		return callOutcome{Outcome: "skipped", Msgs: []string{}}
	}
}

func concRun(in *bufio.Scanner, out *bufio.Writer) {
	for in.Scan() {
		var c concCase
		if err := json.Unmarshal(in.Bytes(), &c); err != nil {
			continue
		}
		rec := map[string]interface{}{"id": c.ID}
		build := func() []*validate.SchemaValidator {
			var l []*validate.SchemaValidator
			for i := range c.Shared {
				s, _ := parseSchema(c.Shared[i].Schema)
				l = append(l, validate.NewSchemaValidator(s, nil, c.Shared[i].Root, strfmt.Default))
			}
			return l
		}
		// sequential reference: every call alone (recycling pools reset before each call; spec outcomes are
		// deterministic per (document, mode) and computed once per process)
		var ref [][]callOutcome
		refShared := build()
		for _, prog := range c.Threads {
			var r []callOutcome
			for i := range prog {
				if prog[i].Kind == "spec" {
					key := fmt.Sprintf("%s|%v", prog[i].Spec, prog[i].Flag)
					if o, ok := specRef[key]; ok {
						r = append(r, o)
						continue
					}
					validate.VerifReset(validate.VerifOff, false)
					o := runConcCall(&prog[i], refShared)
					specRef[key] = o
					r = append(r, o)
					continue
				}
				validate.VerifReset(validate.VerifOff, false)
				r = append(r, runConcCall(&prog[i], refShared))
			}
			ref = append(ref, r)
		}
		validate.SetContinueOnErrors(false)
		// concurrent run, poisoning on
		validate.VerifReset(validate.VerifRecycle, true)
		shared := build()
		if c.Procs > 0 {
			defer runtime.GOMAXPROCS(runtime.GOMAXPROCS(c.Procs))
		}
		got := make([][]callOutcome, len(c.Threads))
		var wg sync.WaitGroup
		for g := range c.Threads {
			wg.Add(1)
			go func(g int) {
				defer wg.Done()
				for i := range c.Threads[g] {
					call := c.Threads[g][i]
					if call.Kind == "pattern" && call.Rexp != nil && call.Rexp.Fresh {
						r := *call.Rexp
						r.P = "(?:" + r.P + ")"
						call.Rexp = &r
					}
					got[g] = append(got[g], runConcCall(&call, shared))
					if i%2 == 0 {
						runtime.Gosched()
					}
				}
			}(g)
		}
		wg.Wait()
		validate.VerifReset(validate.VerifOff, false)
		validate.SetContinueOnErrors(false)
		var diffs []map[string]interface{}
		ncalls := 0
		for g := range c.Threads {
			for i := range c.Threads[g] {
				ncalls++
				if c.Threads[g][i].Kind == "setopt" {
					continue
				}
				if !sameOutcome(ref[g][i], got[g][i]) {
					diffs = append(diffs, map[string]interface{}{"goroutine": g, "call": i, "alone": ref[g][i], "concurrent": got[g][i]})
				}
			}
		}
		rec["diffs"] = diffs
		rec["ncalls"] = ncalls
		b, _ := json.Marshal(rec)
		out.Write(b)
		out.WriteString("\n")
	}
}

func init() {
	props["rexp"] = propCmd{gen: func(int64, int, string, *bufio.Writer) {}, run: rexpRun}
	props["conc"] = propCmd{gen: func(int64, int, string, *bufio.Writer) {}, run: concRun}
}
