package main

// Encoders from decoded go-openapi values to the s-expression syntax read by the Coq model
// (coq/theories/Base/GoVal.v, Schema/Ast.v), with the string interner and the oracle tables.

import (
	"bytes"
	"encoding/json"
	"fmt"
	"math"
	"math/big"
	"reflect"
	"regexp"
	"sort"
	"strconv"
	"strings"
	"unicode/utf8"

	"github.com/go-openapi/spec"
	"github.com/go-openapi/strfmt"
)

var wellKnown = []string{"", "null", "boolean", "string", "number", "integer", "array", "object",
	"int32", "int64", "float32", "float64", "$schema", "id", "headers", "$ref", "type", "items",
	"properties", "default", "example", "examples", "file", "byte", "uint32", "uint64", "float", "double"}

type interner struct {
	ids   map[string]int
	texts []string
}

func newInterner() *interner {
	in := &interner{ids: map[string]int{}}
	for i, s := range wellKnown {
		in.ids[s] = i
	}
	in.texts = append(in.texts, wellKnown...)
	for len(in.texts) < 32 {
		in.texts = append(in.texts, fmt.Sprintf("\x00reserved-%d", len(in.texts)))
	}
	return in
}

func (in *interner) id(s string) int {
	if v, ok := in.ids[s]; ok {
		return v
	}
	v := len(in.texts)
	in.ids[s] = v
	in.texts = append(in.texts, s)
	return v
}

// enc accumulates what a case needs besides the terms themselves.
type enc struct {
	orcJSON     map[string]interface{} // the oracle tables in plain form, for the python-side property oracles
	in          *interner
	patterns    map[string]struct{} // every regexp source the schema can use
	formats     map[string]struct{}
	instStrs    map[string]struct{} // every string of the instance (member names and string values)
	nextObjID   int
	unsupported string
}

func newEnc() *enc {
	return &enc{in: newInterner(), patterns: map[string]struct{}{}, formats: map[string]struct{}{}, instStrs: map[string]struct{}{}}
}

func optInt(p *int64) string {
	if p == nil {
		return "()"
	}
	return fmt.Sprintf("(%d)", *p)
}

func optFloat(p *float64) string {
	if p == nil {
		return "()"
	}
	return fmt.Sprintf("(%d)", math.Float64bits(*p))
}

func b2i(b bool) int {
	if b {
		return 1
	}
	return 0
}

// goval encodes a Go value the way the validators see it. inst=true records strings for the oracle tables
// and assigns identities to maps and slices.
func (e *enc) goval(v interface{}, inst bool) string {
	switch x := v.(type) {
	case nil:
		return "(0)"
	case bool:
		return fmt.Sprintf("(1 %d)", b2i(x))
	case string:
		if inst {
			e.instStrs[x] = struct{}{}
		}
		return fmt.Sprintf("(2 %d)", e.in.id(x))
	case float64:
		return fmt.Sprintf("(3 0 %d)", math.Float64bits(x))
	case float32:
		return fmt.Sprintf("(3 1 %d)", math.Float64bits(float64(x)))
	case json.Number:
		i, erri := x.Int64()
		f, errf := x.Float64()
		si, sf := "()", "()"
		if erri == nil {
			si = fmt.Sprintf("(%d)", i)
		}
		if errf == nil {
			sf = fmt.Sprintf("(%d)", math.Float64bits(f))
		}
		if inst {
			e.instStrs[string(x)] = struct{}{}
		}
		return fmt.Sprintf("(5 %d %s %s)", e.in.id(string(x)), si, sf)
	case int:
		return fmt.Sprintf("(4 0 %d)", x)
	case int8:
		return fmt.Sprintf("(4 1 %d)", x)
	case int16:
		return fmt.Sprintf("(4 2 %d)", x)
	case int32:
		return fmt.Sprintf("(4 3 %d)", x)
	case int64:
		return fmt.Sprintf("(4 4 %d)", x)
	case uint:
		return fmt.Sprintf("(4 5 %d)", x)
	case uint8:
		return fmt.Sprintf("(4 6 %d)", x)
	case uint16:
		return fmt.Sprintf("(4 7 %d)", x)
	case uint32:
		return fmt.Sprintf("(4 8 %d)", x)
	case uint64:
		return fmt.Sprintf("(4 9 %d)", x)
	case []interface{}:
		id := e.nextObjID
		e.nextObjID++
		parts := make([]string, len(x))
		for i, el := range x {
			parts[i] = e.goval(el, inst)
		}
		return fmt.Sprintf("(6 %d (%s))", id, strings.Join(parts, " "))
	case map[string]interface{}:
		id := e.nextObjID
		e.nextObjID++
		keys := make([]string, 0, len(x))
		for k := range x {
			keys = append(keys, k)
		}
		sort.Strings(keys)
		parts := make([]string, len(keys))
		for i, k := range keys {
			if inst {
				e.instStrs[k] = struct{}{}
			}
			parts[i] = fmt.Sprintf("(%d %s)", e.in.id(k), e.goval(x[k], inst))
		}
		return fmt.Sprintf("(7 %d (%s))", id, strings.Join(parts, " "))
	default:
		e.unsupported = fmt.Sprintf("value of type %T", v)
		return "(0)"
	}
}

func (e *enc) strList(l []string) string {
	parts := make([]string, len(l))
	for i, s := range l {
		parts[i] = strconv.Itoa(e.in.id(s))
	}
	return "(" + strings.Join(parts, " ") + ")"
}

func (e *enc) optSchema(s *spec.Schema) string {
	if s == nil {
		return "()"
	}
	return "(" + e.schema(s) + ")"
}

func (e *enc) schemaList(l []spec.Schema) string {
	parts := make([]string, len(l))
	for i := range l {
		parts[i] = e.schema(&l[i])
	}
	return "(" + strings.Join(parts, " ") + ")"
}

func (e *enc) named(m map[string]spec.Schema, pattern bool) string {
	keys := make([]string, 0, len(m))
	for k := range m {
		keys = append(keys, k)
	}
	sort.Strings(keys)
	parts := make([]string, len(keys))
	for i, k := range keys {
		if pattern {
			e.patterns[k] = struct{}{}
		}
		v := m[k]
		parts[i] = fmt.Sprintf("(%d %s)", e.in.id(k), e.schema(&v))
	}
	return "(" + strings.Join(parts, " ") + ")"
}

func (e *enc) sob(s *spec.SchemaOrBool) string {
	if s == nil {
		return "()"
	}
	return fmt.Sprintf("((%d %s))", b2i(s.Allows), e.optSchema(s.Schema))
}

// schema encodes a decoded spec.Schema in the field order of get_schema_fuel (Schema/Ast.v).
func (e *enc) schema(s *spec.Schema) string {
	var f []string
	ref := s.Ref.String()
	if ref == "" {
		f = append(f, "()")
	} else {
		f = append(f, fmt.Sprintf("(%d)", e.in.id(ref)))
	}
	if s.ID != "" {
		e.unsupported = "schema with id"
	}
	f = append(f, e.strList(s.Type))
	f = append(f, strconv.Itoa(b2i(s.Nullable)))
	f = append(f, strconv.Itoa(e.in.id(s.Format)))
	if s.Format != "" {
		e.formats[s.Format] = struct{}{}
	}
	en := make([]string, len(s.Enum))
	for i, v := range s.Enum {
		en[i] = e.goval(v, false)
	}
	f = append(f, "("+strings.Join(en, " ")+")")
	if s.Default == nil {
		f = append(f, "()")
	} else {
		f = append(f, "("+e.goval(s.Default, false)+")")
	}
	f = append(f, optFloat(s.MultipleOf), optFloat(s.Maximum), strconv.Itoa(b2i(s.ExclusiveMaximum)),
		optFloat(s.Minimum), strconv.Itoa(b2i(s.ExclusiveMinimum)), optInt(s.MaxLength), optInt(s.MinLength))
	f = append(f, strconv.Itoa(e.in.id(s.Pattern)))
	if s.Pattern != "" {
		e.patterns[s.Pattern] = struct{}{}
	}
	f = append(f, optInt(s.MaxItems), optInt(s.MinItems), strconv.Itoa(b2i(s.UniqueItems)))
	if s.Items == nil {
		f = append(f, "()", "()", "0")
	} else {
		f = append(f, e.optSchema(s.Items.Schema))
		if s.Items.Schemas == nil {
			f = append(f, "()")
		} else {
			f = append(f, "("+e.schemaList(s.Items.Schemas)+")")
		}
		f = append(f, "1")
	}
	f = append(f, e.sob(s.AdditionalItems), optInt(s.MaxProperties), optInt(s.MinProperties), e.strList(s.Required))
	f = append(f, e.named(s.Properties, false), e.named(s.PatternProperties, true), e.sob(s.AdditionalProperties))
	f = append(f, e.schemaList(s.AllOf), e.schemaList(s.AnyOf), e.schemaList(s.OneOf), e.optSchema(s.Not))
	dkeys := make([]string, 0, len(s.Dependencies))
	for k := range s.Dependencies {
		dkeys = append(dkeys, k)
	}
	sort.Strings(dkeys)
	deps := make([]string, len(dkeys))
	for i, k := range dkeys {
		d := s.Dependencies[k]
		deps[i] = fmt.Sprintf("(%d %s %s)", e.in.id(k), e.optSchema(d.Schema), e.strList(d.Property))
	}
	f = append(f, "("+strings.Join(deps, " ")+")")
	return "(" + strings.Join(f, " ") + ")"
}

// collectRefs lists the distinct $ref strings reachable in a schema (including inside definitions).
func collectRefs(s *spec.Schema, seen map[string]struct{}) {
	if s == nil {
		return
	}
	if r := s.Ref.String(); r != "" {
		seen[r] = struct{}{}
	}
	each := func(l []spec.Schema) {
		for i := range l {
			collectRefs(&l[i], seen)
		}
	}
	eachM := func(m map[string]spec.Schema) {
		for _, v := range m {
			v := v
			collectRefs(&v, seen)
		}
	}
	if s.Items != nil {
		collectRefs(s.Items.Schema, seen)
		each(s.Items.Schemas)
	}
	if s.AdditionalItems != nil {
		collectRefs(s.AdditionalItems.Schema, seen)
	}
	if s.AdditionalProperties != nil {
		collectRefs(s.AdditionalProperties.Schema, seen)
	}
	eachM(s.Properties)
	eachM(s.PatternProperties)
	eachM(s.Definitions)
	each(s.AllOf)
	each(s.AnyOf)
	each(s.OneOf)
	collectRefs(s.Not, seen)
	for _, d := range s.Dependencies {
		collectRefs(d.Schema, seen)
	}
}

// oracles builds the tables of what the Go standard library and the registry answer about the strings of a case.
// Every regexp is compiled afresh with package regexp, never through the library's cache.
func (e *enc) oracles(reg strfmt.Registry, extraStrs []string) string {
	strs := make([]string, 0, len(e.instStrs))
	for s := range e.instStrs {
		strs = append(strs, s)
	}
	strs = append(strs, extraStrs...)
	sort.Strings(strs)
	pats := make([]string, 0, len(e.patterns))
	for p := range e.patterns {
		pats = append(pats, p)
	}
	sort.Strings(pats)
	fmts := make([]string, 0, len(e.formats))
	for f := range e.formats {
		fmts = append(fmts, f)
	}
	sort.Strings(fmts)

	var runes, reok, rematch, fknown, fcheck []string
	for _, s := range strs {
		runes = append(runes, fmt.Sprintf("(%d %d)", e.in.id(s), utf8.RuneCountInString(s)))
	}
	for _, p := range pats {
		re, err := regexp.Compile(p)
		if err != nil {
			continue
		}
		reok = append(reok, strconv.Itoa(e.in.id(p)))
		for _, s := range strs {
			if re.MatchString(s) {
				rematch = append(rematch, fmt.Sprintf("(%d %d)", e.in.id(p), e.in.id(s)))
			}
		}
	}
	if reg != nil {
		for _, f := range fmts {
			if !reg.ContainsName(f) {
				continue
			}
			fknown = append(fknown, strconv.Itoa(e.in.id(f)))
			for _, s := range strs {
				if reg.Validates(f, s) {
					fcheck = append(fcheck, fmt.Sprintf("(%d %d)", e.in.id(f), e.in.id(s)))
				}
			}
		}
	}
	e.orcJSON = map[string]interface{}{}
	{
		known := map[string]bool{}
		checks := map[string][]string{}
		if reg != nil {
			for _, f := range fmts {
				known[f] = reg.ContainsName(f)
				if known[f] {
					for _, s := range strs {
						if reg.Validates(f, s) {
							checks[f] = append(checks[f], s)
						}
					}
				}
			}
		}
		rl := map[string]int{}
		for _, s := range strs {
			rl[s] = utf8.RuneCountInString(s)
		}
		pm := map[string][]string{}
		pok := map[string]bool{}
		for _, p := range pats {
			re, err := regexp.Compile(p)
			pok[p] = err == nil
			if err == nil {
				for _, s := range strs {
					if re.MatchString(s) {
						pm[p] = append(pm[p], s)
					}
				}
			}
		}
		e.orcJSON["fmt_known"], e.orcJSON["fmt_ok"], e.orcJSON["runes"], e.orcJSON["re_ok"], e.orcJSON["re_match"] = known, checks, rl, pok, pm
	}
	j := func(l []string) string { return "(" + strings.Join(l, " ") + ")" }
	return "(" + j(runes) + " " + j(reok) + " " + j(rematch) + " " + j(fknown) + " " + j(fcheck) + ")"
}

// options encodes the schema validator options and the dot-component table of every interned string.
func (e *enc) options(objArrayTypeCheck, arrayMustHaveItems, skipSchemata bool) string {
	var tails []string
	for id, s := range e.in.texts {
		if !strings.Contains(s, ".") {
			continue
		}
		comps := strings.Split(s, ".")
		last := comps[len(comps)-1]
		second := comps[len(comps)-2]
		tails = append(tails, fmt.Sprintf("(%d %d %d)", id, e.in.id(last), e.in.id(second)))
	}
	return fmt.Sprintf("(%d %d %d (%s))", b2i(objArrayTypeCheck), b2i(arrayMustHaveItems), b2i(skipSchemata), strings.Join(tails, " "))
}

func deepCopyJSON(v interface{}) interface{} {
	switch x := v.(type) {
	case map[string]interface{}:
		m := make(map[string]interface{}, len(x))
		for k, el := range x {
			m[k] = deepCopyJSON(el)
		}
		return m
	case []interface{}:
		l := make([]interface{}, len(x))
		for i, el := range x {
			l[i] = deepCopyJSON(el)
		}
		return l
	default:
		return v
	}
}

func isNilPtr(v interface{}) bool {
	rv := reflect.ValueOf(v)
	return rv.Kind() == reflect.Ptr && rv.IsNil()
}

// decOfLiteral parses a JSON number literal into mantissa * 10^exp exactly.
func decOfLiteral(lit string) (*big.Int, int, bool) {
	mant := lit
	exp := 0
	if i := strings.IndexAny(lit, "eE"); i >= 0 {
		mant = lit[:i]
		e, err := strconv.Atoi(lit[i+1:])
		if err != nil {
			return nil, 0, false
		}
		exp = e
	}
	neg := strings.HasPrefix(mant, "-")
	mant = strings.TrimPrefix(mant, "-")
	if i := strings.Index(mant, "."); i >= 0 {
		frac := mant[i+1:]
		mant = mant[:i] + frac
		exp -= len(frac)
	}
	m, ok := new(big.Int).SetString(mant, 10)
	if !ok {
		return nil, 0, false
	}
	if neg {
		m.Neg(m)
	}
	return m, exp, true
}

// decTable lists, for every number literal of the given JSON texts, (float64 bits, mantissa, exponent).
func decTable(raws ...[]byte) string {
	seen := map[uint64]struct{}{}
	var out []string
	for _, raw := range raws {
		dec := json.NewDecoder(bytes.NewReader(raw))
		dec.UseNumber()
		for {
			tok, err := dec.Token()
			if err != nil {
				break
			}
			n, ok := tok.(json.Number)
			if !ok {
				continue
			}
			f, err := strconv.ParseFloat(string(n), 64)
			if err != nil {
				continue
			}
			bits := math.Float64bits(f)
			if _, dup := seen[bits]; dup {
				continue
			}
			m, e, ok := decOfLiteral(string(n))
			if !ok {
				continue
			}
			seen[bits] = struct{}{}
			out = append(out, fmt.Sprintf("(%d %s %d)", bits, m.String(), e))
		}
	}
	return "(" + strings.Join(out, " ") + ")"
}
