package main

// Whole-specification validation (C02 C03 C07 C09 C10, document part of C12).

import (
	"bufio"
	"bytes"
	"encoding/json"
	stderrors "errors"
	"fmt"
	"os"
	"path/filepath"
	"sort"

	"github.com/go-openapi/errors"
	"github.com/go-openapi/loads"
	"github.com/go-openapi/spec"
	"github.com/go-openapi/strfmt"
	"github.com/go-openapi/validate"
)

type specCase struct {
	ID       int             `json:"id"`
	Doc      json.RawMessage `json:"doc,omitempty"`  // a JSON document
	File     string          `json:"file,omitempty"` // or a fixture path relative to /repo (JSON or YAML)
	Repeats  int             `json:"repeats,omitempty"`
	Loose    bool            `json:"loose,omitempty"`    // also run with StrictPathParamUniqueness off
	Defaults bool            `json:"defaults,omitempty"` // also run through the package-level defaults
	Origin   string          `json:"origin,omitempty"`
	Edits    []string        `json:"edits,omitempty"`
}

type specRun struct {
	Outcome  string   `json:"outcome"` // ok | panic | unloadable
	Panic    string   `json:"panic,omitempty"`
	Stack    string   `json:"stack,omitempty"`
	Valid    bool     `json:"valid"`
	Errors   []string `json:"errors"`
	Warnings []string `json:"warnings"`      // the separately returned warnings
	ErrWarns []string `json:"errs_warnings"` // the warnings attached to the main result
}

func loadDoc(c *specCase) (*loads.Document, error) {
	if c.File != "" {
		repo := os.Getenv("VERIF_REPO")
		if repo == "" {
			repo = "/repo"
		}
		return loads.Spec(filepath.Join(repo, c.File))
	}
	return loads.Analyzed(json.RawMessage(c.Doc), "")
}

func texts(l []error) []string {
	out := make([]string, 0, len(l))
	for _, e := range l {
		out = append(out, e.Error())
	}
	sort.Strings(out)
	return out
}

func runSpec(c *specCase, cont, strict bool) (r specRun) {
	defer func() {
		if x := recover(); x != nil {
			r = specRun{Outcome: "panic", Panic: panicClass(x) + ": " + fmt.Sprint(x), Stack: shortStack(), Errors: []string{}, Warnings: []string{}, ErrWarns: []string{}}
			validate.VerifReset(validate.VerifOff, false)
		}
	}()
	doc, err := loadDoc(c)
	if err != nil {
		return specRun{Outcome: "unloadable", Panic: err.Error(), Errors: []string{}, Warnings: []string{}, ErrWarns: []string{}}
	}
	v := validate.NewSpecValidator(doc.Schema(), strfmt.Default)
	v.Options.ContinueOnErrors = cont
	v.Options.StrictPathParamUniqueness = strict
	errs, warns := v.Validate(doc)
	return specRun{Outcome: "ok", Valid: errs.IsValid(), Errors: texts(errs.Errors), Warnings: texts(warns.Errors), ErrWarns: texts(errs.Warnings)}
}

// runSpecDefaults: validate.SetContinueOnErrors(cont) then validate.Spec, whose validator copies the package defaults
func runSpecDefaults(c *specCase, cont bool) (r specRun) {
	defer func() {
		if x := recover(); x != nil {
			r = specRun{Outcome: "panic", Panic: panicClass(x) + ": " + fmt.Sprint(x), Stack: shortStack(), Errors: []string{}, Warnings: []string{}, ErrWarns: []string{}}
			validate.VerifReset(validate.VerifOff, false)
		}
	}()
	doc, err := loadDoc(c)
	if err != nil {
		return specRun{Outcome: "unloadable", Panic: err.Error(), Errors: []string{}, Warnings: []string{}, ErrWarns: []string{}}
	}
	validate.SetContinueOnErrors(cont)
	r = specRun{Outcome: "ok", Valid: true, Errors: []string{}, Warnings: []string{}, ErrWarns: []string{}}
	if e := validate.Spec(doc, strfmt.Default); e != nil {
		r.Valid = false
		var ce *errors.CompositeError
		if stderrors.As(e, &ce) {
			r.Errors = texts(ce.Errors)
		} else {
			r.Errors = []string{e.Error()}
		}
	}
	return r
}

// firstPass: the Swagger 2.0 schema run directly over the raw document, as spec.go:118-120 does
func firstPass(c *specCase) (run goRun, raw []byte) {
	defer func() {
		if x := recover(); x != nil {
			run = goRun{Outcome: "panic", Panic: panicClass(x) + ": " + fmt.Sprint(x), Errors: []goErr{}}
		}
	}()
	doc, err := loadDoc(c)
	if err != nil {
		return goRun{Outcome: "unloadable", Errors: []goErr{}}, nil
	}
	var obj interface{}
	if err := json.Unmarshal(doc.Raw(), &obj); err != nil {
		return goRun{Outcome: "unloadable", Errors: []goErr{}}, nil
	}
	sch := spec.MustLoadSwagger20Schema()
	res := validate.NewSchemaValidator(sch, nil, "", strfmt.Default, validate.SwaggerSchema(true)).Validate(obj)
	return observeResult(res), doc.Raw()
}

func swaggerSchemaJSON() []byte {
	b, _ := json.Marshal(spec.MustLoadSwagger20Schema())
	var m map[string]interface{}
	_ = json.Unmarshal(b, &m)
	delete(m, "id") // the root id plays no role for local references
	delete(m, "$schema")
	out, _ := json.Marshal(m)
	return out
}

func sameStrings(a, b []string) bool {
	if len(a) != len(b) {
		return false
	}
	for i := range a {
		if a[i] != b[i] {
			return false
		}
	}
	return true
}

func specRunAll(in *bufio.Scanner, out *bufio.Writer) {
	swagger := swaggerSchemaJSON()
	for in.Scan() {
		var c specCase
		if err := json.Unmarshal(in.Bytes(), &c); err != nil {
			continue
		}
		rec := map[string]interface{}{"id": c.ID}
		runs := map[string]specRun{}
		for _, cont := range []bool{false, true} {
			stricts := []bool{true}
			if c.Loose {
				stricts = []bool{true, false}
			}
			for _, strict := range stricts {
				key := fmt.Sprintf("cont=%v,strict=%v", cont, strict)
				if cont && strict {
					// this run also takes the snapshots for C12: raw bytes and the parsed specification, before and after
					func() {
						defer func() {
							if x := recover(); x != nil {
								runs[key] = specRun{Outcome: "panic", Panic: panicClass(x) + ": " + fmt.Sprint(x), Stack: shortStack(), Errors: []string{}, Warnings: []string{}, ErrWarns: []string{}}
								validate.VerifReset(validate.VerifOff, false)
							}
						}()
						d, err := loadDoc(&c)
						if err != nil {
							runs[key] = specRun{Outcome: "unloadable", Panic: err.Error(), Errors: []string{}, Warnings: []string{}, ErrWarns: []string{}}
							return
						}
						rawBefore := append([]byte(nil), d.Raw()...)
						specBefore, _ := json.Marshal(d.Spec())
						v := validate.NewSpecValidator(d.Schema(), strfmt.Default)
						v.Options.ContinueOnErrors = true
						v.Options.StrictPathParamUniqueness = true
						errs, warns := v.Validate(d)
						specAfter, _ := json.Marshal(d.Spec())
						rec["raw_untouched"] = bytes.Equal(rawBefore, d.Raw())
						rec["spec_untouched"] = bytes.Equal(specBefore, specAfter)
						if !bytes.Equal(specBefore, specAfter) {
							rec["spec_before"] = json.RawMessage(specBefore)
							rec["spec_after"] = json.RawMessage(specAfter)
						}
						runs[key] = specRun{Outcome: "ok", Valid: errs.IsValid(), Errors: texts(errs.Errors), Warnings: texts(warns.Errors), ErrWarns: texts(errs.Warnings)}
					}()
					continue
				}
				runs[key] = runSpec(&c, cont, strict)
			}
		}
		rec["runs"] = runs
		// repetitions of one configuration (map iteration orders differ by themselves); compared by the caller
		reps := map[string][]specRun{}
		for _, cont := range []bool{false, true} {
			for i := 0; i < c.Repeats; i++ {
				key := fmt.Sprintf("cont=%v", cont)
				reps[key] = append(reps[key], runSpec(&c, cont, true))
			}
		}
		rec["repeats"] = reps
		// through the package-level defaults: the global switch is set, then the one-shot entry point is used, which
		// builds its validator from the defaults (false, true, false again: the history must not matter)
		if c.Defaults {
			var dl []specRun
			for _, cont := range []bool{false, true, false} {
				dl = append(dl, runSpecDefaults(&c, cont))
			}
			validate.SetContinueOnErrors(false)
			rec["defaults"] = dl
		}
		// first pass alone and its model input (the Swagger 2.0 schema over the raw document)
		fp, raw := firstPass(&c)
		rec["first_pass"] = fp
		if raw != nil {
			sc := schemaCase{ID: c.ID, Schema: swagger, Data: raw, Root: "", Swagger: true}
			sx, textsTab, why := modelInput(&sc, caseFuel(&sc))
			if why != "" {
				rec["model_skip"] = why
			} else {
				rec["sx"] = sx
				rec["strings"] = textsTab
			}
			rec["raw"] = json.RawMessage(raw)
		}
		b, _ := json.Marshal(rec)
		out.Write(b)
		out.WriteString("\n")
	}
}

func init() {
	props["spec"] = propCmd{gen: func(int64, int, string, *bufio.Writer) {}, run: specRunAll}
}

// reuse (C10): one SpecValidator validating several documents in a row, each compared by the caller with a fresh validator
type reuseCase struct {
	ID   int               `json:"id"`
	Docs []json.RawMessage `json:"docs"`
	Cont bool              `json:"cont"`
	// SameDoc: Docs holds one document; the very same loaded *loads.Document is validated Again times, each time
	// with a fresh validator (fresh: a newly loaded copy validated once)
	SameDoc bool `json:"same_doc,omitempty"`
	Again   int  `json:"again,omitempty"`
}

func reuseRun(in *bufio.Scanner, out *bufio.Writer) {
	for in.Scan() {
		var c reuseCase
		if err := json.Unmarshal(in.Bytes(), &c); err != nil {
			continue
		}
		rec := map[string]interface{}{"id": c.ID}
		var reused, fresh []specRun
		if c.SameDoc && len(c.Docs) == 1 {
			sc := specCase{Doc: c.Docs[0]}
			fresh = append(fresh, runSpec(&sc, c.Cont, true))
			func() {
				defer func() {
					if x := recover(); x != nil {
						reused = append(reused, specRun{Outcome: "panic", Panic: panicClass(x) + ": " + fmt.Sprint(x), Stack: shortStack(), Errors: []string{}, Warnings: []string{}, ErrWarns: []string{}})
						validate.VerifReset(validate.VerifOff, false)
					}
				}()
				doc, err := loadDoc(&sc)
				if err != nil {
					return
				}
				for i := 0; i < c.Again; i++ {
					v := validate.NewSpecValidator(doc.Schema(), strfmt.Default)
					v.Options.ContinueOnErrors = c.Cont
					v.Options.StrictPathParamUniqueness = true
					errs, warns := v.Validate(doc)
					reused = append(reused, specRun{Outcome: "ok", Valid: errs.IsValid(), Errors: texts(errs.Errors), Warnings: texts(warns.Errors), ErrWarns: texts(errs.Warnings)})
				}
			}()
			for len(fresh) < len(reused) {
				fresh = append(fresh, fresh[0])
			}
			rec["fresh"] = fresh
			rec["reused"] = reused
			b, _ := json.Marshal(rec)
			out.Write(b)
			out.WriteString("\n")
			continue
		}
		func() {
			var v *validate.SpecValidator
			for _, raw := range c.Docs {
				sc := specCase{Doc: raw}
				fresh = append(fresh, runSpec(&sc, c.Cont, true))
				r := func() (r specRun) {
					defer func() {
						if x := recover(); x != nil {
							r = specRun{Outcome: "panic", Panic: panicClass(x) + ": " + fmt.Sprint(x), Stack: shortStack(), Errors: []string{}, Warnings: []string{}, ErrWarns: []string{}}
							validate.VerifReset(validate.VerifOff, false)
							v = nil
						}
					}()
					doc, err := loadDoc(&sc)
					if err != nil {
						return specRun{Outcome: "unloadable", Panic: err.Error(), Errors: []string{}, Warnings: []string{}, ErrWarns: []string{}}
					}
					if v == nil {
						v = validate.NewSpecValidator(doc.Schema(), strfmt.Default)
						v.Options.ContinueOnErrors = c.Cont
						v.Options.StrictPathParamUniqueness = true
					}
					errs, warns := v.Validate(doc)
					return specRun{Outcome: "ok", Valid: errs.IsValid(), Errors: texts(errs.Errors), Warnings: texts(warns.Errors), ErrWarns: texts(errs.Warnings)}
				}()
				reused = append(reused, r)
			}
		}()
		rec["fresh"] = fresh
		rec["reused"] = reused
		b, _ := json.Marshal(rec)
		out.Write(b)
		out.WriteString("\n")
	}
}

func init() {
	props["reuse"] = propCmd{gen: func(int64, int, string, *bufio.Writer) {}, run: reuseRun}
}
