package main

// The visited-path heuristic of the default / example validators (C07 C09), through the verif accessor.

import (
	"bufio"
	"encoding/json"
	"fmt"
	"strings"

	"github.com/go-openapi/validate"
)

type visitedCase struct {
	ID      int      `json:"id"`
	Path    string   `json:"path"`
	Visited []string `json:"visited"`
}

func bytesSx(s string) string {
	parts := make([]string, len(s))
	for i := 0; i < len(s); i++ {
		parts[i] = fmt.Sprint(int(s[i]))
	}
	return "(" + strings.Join(parts, " ") + ")"
}

func visitedRun(in *bufio.Scanner, out *bufio.Writer) {
	for in.Scan() {
		var c visitedCase
		if err := json.Unmarshal(in.Bytes(), &c); err != nil {
			continue
		}
		vs := make([]string, len(c.Visited))
		for i, v := range c.Visited {
			vs[i] = bytesSx(v)
		}
		rec := map[string]interface{}{"id": c.ID, "sx": "(" + bytesSx(c.Path) + " (" + strings.Join(vs, " ") + "))",
			"go": validate.VerifIsVisited(c.Path, c.Visited)}
		b, _ := json.Marshal(rec)
		out.Write(b)
		out.WriteString("\n")
	}
}

func init() {
	props["visited"] = propCmd{gen: func(int64, int, string, *bufio.Writer) {}, run: visitedRun}
}
