package main

// C08 (long-lived validators are stateless) and C12 (inputs are read-only).

import (
	"bufio"
	"bytes"
	"encoding/json"
	"fmt"

	"github.com/go-openapi/spec"
	"github.com/go-openapi/strfmt"
	"github.com/go-openapi/validate"
)

type histCase struct {
	ID     int               `json:"id"`
	Kind   string            `json:"kind"` // schema | param | header
	Schema *schemaCase       `json:"schema,omitempty"`
	Values []json.RawMessage `json:"values,omitempty"` // instances for a schema validator
	Simple *simpleCase       `json:"simple,omitempty"`
	Typed  []typedVal        `json:"typed,omitempty"` // values for a parameter / header validator
}

func safeOutcome(f func() *validate.Result) (o callOutcome) {
	defer func() {
		if r := recover(); r != nil {
			o = callOutcome{Outcome: "panic", Panic: panicClass(r) + ": " + fmt.Sprint(r), Msgs: []string{}}
		}
	}()
	return outcomeOf(f())
}

func canonJSON(v interface{}) string { b, _ := json.Marshal(v); return string(b) }

func histRun(in *bufio.Scanner, out *bufio.Writer) {
	for in.Scan() {
		var c histCase
		if err := json.Unmarshal(in.Bytes(), &c); err != nil {
			continue
		}
		rec := map[string]interface{}{"id": c.ID}
		var diffs []map[string]interface{}
		var mutated []map[string]interface{}
		var outcomes []callOutcome
		n := 0
		if c.Kind == "schema" {
			s, err := parseSchema(c.Schema.Schema)
			if err != nil {
				rec["skip"] = "schema does not decode"
			} else {
				reg := caseRegistry(c.Schema)
				schemaBefore := canonJSON(s)
				long := func() (v *validate.SchemaValidator) {
					defer func() { _ = recover() }()
					return validate.NewSchemaValidator(s, nil, c.Schema.Root, reg, caseOptions(c.Schema)...)
				}()
				if long == nil {
					rec["skip"] = "validator cannot be built"
				} else {
					for i, raw := range c.Values {
						d, err := parseData(raw, false)
						if err != nil {
							continue
						}
						n++
						before := canonJSON(d)
						o1 := safeOutcome(func() *validate.Result { return long.Validate(d) })
						if canonJSON(d) != before {
							mutated = append(mutated, map[string]interface{}{"call": i, "what": "instance", "before": before, "after": canonJSON(d)})
						}
						s2, _ := parseSchema(c.Schema.Schema)
						d2, _ := parseData(raw, false)
						o2 := safeOutcome(func() *validate.Result {
							return validate.NewSchemaValidator(s2, nil, c.Schema.Root, reg, caseOptions(c.Schema)...).Validate(d2)
						})
						o3 := safeOutcome(func() *validate.Result { return long.Validate(d) })
						if !sameOutcome(o1, o2) {
							diffs = append(diffs, map[string]interface{}{"call": i, "what": "differs from a freshly built validator", "long_lived": o1, "fresh": o2})
						}
						if !sameOutcome(o1, o3) {
							diffs = append(diffs, map[string]interface{}{"call": i, "what": "repeating the call gives another result", "first": o1, "second": o3})
						}
						outcomes = append(outcomes, o1)
						// the one-shot entry point must not touch the instance either
						d3, _ := parseData(raw, false)
						s3, _ := parseSchema(c.Schema.Schema)
						s3before := canonJSON(s3)
						func() {
							defer func() { _ = recover() }()
							_ = validate.AgainstSchema(s3, d3, reg, caseOptions(c.Schema)...)
						}()
						if canonJSON(d3) != before {
							mutated = append(mutated, map[string]interface{}{"call": i, "what": "instance (AgainstSchema)", "before": before, "after": canonJSON(d3)})
						}
						if !bytes.Contains(c.Schema.Schema, []byte("$ref")) && canonJSON(s3) != s3before {
							mutated = append(mutated, map[string]interface{}{"call": i, "what": "schema (AgainstSchema)", "before": s3before, "after": canonJSON(s3)})
						}
					}
					if !bytes.Contains(c.Schema.Schema, []byte("$ref")) && canonJSON(s) != schemaBefore {
						mutated = append(mutated, map[string]interface{}{"what": "schema", "before": schemaBefore, "after": canonJSON(s)})
					}
				}
			}
		} else {
			mk := func() func(interface{}) *validate.Result {
				if c.Kind == "header" {
					h := new(spec.Header)
					if json.Unmarshal(c.Simple.Def, h) != nil {
						return nil
					}
					v := validate.NewHeaderValidator(c.Simple.Name, h, strfmt.Default)
					return v.Validate
				}
				p := new(spec.Parameter)
				if json.Unmarshal(c.Simple.Def, p) != nil {
					return nil
				}
				v := validate.NewParamValidator(p, strfmt.Default)
				return v.Validate
			}
			long := mk()
			if long == nil {
				rec["skip"] = "definition does not decode"
			} else {
				for i := range c.Typed {
					e := newEnc()
					val, _ := c.Typed[i].build(e)
					n++
					before := fmt.Sprintf("%#v", val)
					o1 := safeOutcome(func() *validate.Result { return long(val) })
					if fmt.Sprintf("%#v", val) != before {
						mutated = append(mutated, map[string]interface{}{"call": i, "what": "value", "before": before, "after": fmt.Sprintf("%#v", val)})
					}
					fresh := mk()
					val2, _ := c.Typed[i].build(newEnc())
					o2 := safeOutcome(func() *validate.Result { return fresh(val2) })
					o3 := safeOutcome(func() *validate.Result { return long(val) })
					if !sameOutcome(o1, o2) {
						diffs = append(diffs, map[string]interface{}{"call": i, "what": "differs from a freshly built validator", "long_lived": o1, "fresh": o2})
					}
					if !sameOutcome(o1, o3) {
						diffs = append(diffs, map[string]interface{}{"call": i, "what": "repeating the call gives another result", "first": o1, "second": o3})
					}
					outcomes = append(outcomes, o1)
				}
			}
		}
		rec["diffs"] = diffs
		rec["mutated"] = mutated
		rec["ncalls"] = n
		rec["outcomes"] = outcomes
		b, _ := json.Marshal(rec)
		out.Write(b)
		out.WriteString("\n")
	}
}

func init() {
	props["hist"] = propCmd{gen: func(int64, int, string, *bufio.Writer) {}, run: histRun}
}
