package main

import (
	"bufio"
	"encoding/json"
	"errors"
	"fmt"
	"math/rand"
	"strings"

	"github.com/go-openapi/validate"
)

// C20: histories of Result operations over 4 pointer variables.

type c20Op struct {
	K  int   `json:"k"`            // 0 AddErrors 1 AddWarnings 2 Merge 3 MergeAsErrors 4 MergeAsWarnings 5 Inc 6 New 7 SetNil
	V  int   `json:"v"`            // receiver variable
	Es []int `json:"es,omitempty"` // message ids (-1 = nil error) or operand variables
}

type c20Case struct {
	ID  int     `json:"id"`
	Ops []c20Op `json:"ops"`
}

const c20Vars = 4

func init() {
	props["c20"] = propCmd{gen: c20Gen, run: c20Run}
}

func c20Gen(seed int64, n int, tier string, out *bufio.Writer) {
	rng := rand.New(rand.NewSource(seed))
	enc := json.NewEncoder(out)
	for id := 0; id < n; id++ {
		maxLen := 40
		if tier == "thorough" && id%50 == 0 {
			maxLen = 2000
		}
		length := 1 + rng.Intn(maxLen)
		alive := [c20Vars]bool{}
		var ops []c20Op
		alphabet := 2 + rng.Intn(7)
		for len(ops) < length {
			k := rng.Intn(10)
			if k >= 8 { // bias towards merges
				k = 2 + rng.Intn(3)
			}
			v := rng.Intn(c20Vars)
			if !alive[v] && k != 7 {
				k = 6
			} else if k == 6 && rng.Intn(5) != 0 { // resets are rare: state must accumulate
				k = rng.Intn(6)
			}
			op := c20Op{K: k, V: v}
			switch k {
			case 0, 1:
				m := rng.Intn(6)
				for i := 0; i < m; i++ {
					if rng.Intn(6) == 0 {
						op.Es = append(op.Es, -1)
					} else {
						op.Es = append(op.Es, rng.Intn(alphabet))
					}
				}
			case 2, 3, 4:
				m := 1 + rng.Intn(3)
				for i := 0; i < m; i++ {
					op.Es = append(op.Es, rng.Intn(c20Vars)) // may be nil-valued, may be the receiver
				}
			case 6:
				alive[v] = true
			case 7:
				if rng.Intn(3) != 0 { // keep most variables alive
					continue
				}
				alive[v] = false
			}
			ops = append(ops, op)
		}
		_ = enc.Encode(c20Case{ID: id, Ops: ops})
	}
}

func c20Msg(id int) error {
	if id < 0 {
		return nil
	}
	return errors.New(fmt.Sprintf("message-%d", id))
}

func c20MsgID(e error) string {
	return strings.TrimPrefix(e.Error(), "message-")
}

func c20View(r *validate.Result) string {
	var b strings.Builder
	b.WriteString("(")
	if r == nil {
		b.WriteString("()")
	} else {
		b.WriteString("((")
		for i, e := range r.Errors {
			if i > 0 {
				b.WriteString(" ")
			}
			b.WriteString(c20MsgID(e))
		}
		b.WriteString(") (")
		for i, e := range r.Warnings {
			if i > 0 {
				b.WriteString(" ")
			}
			b.WriteString(c20MsgID(e))
		}
		fmt.Fprintf(&b, ") %d)", r.MatchCount)
	}
	bi := func(x bool) int {
		if x {
			return 1
		}
		return 0
	}
	fmt.Fprintf(&b, " %d %d %d %d)", bi(r.IsValid()), bi(r.HasErrors()), bi(r.HasWarnings()), bi(r.HasErrorsOrWarnings()))
	return b.String()
}

func c20Run(in *bufio.Scanner, out *bufio.Writer) {
	for in.Scan() {
		var c c20Case
		if err := json.Unmarshal(in.Bytes(), &c); err != nil {
			fmt.Fprintf(out, "{\"id\":-1,\"error\":%q}\n", err.Error())
			continue
		}
		var sx, obs strings.Builder
		vars := [c20Vars]*validate.Result{}
		sx.WriteString("(")
		obs.WriteString("(")
		for i, op := range c.Ops {
			if i > 0 {
				sx.WriteString(" ")
				obs.WriteString(" ")
			}
			fmt.Fprintf(&sx, "(%d %d", op.K, op.V)
			if op.K <= 4 {
				sx.WriteString(" (")
				for j, e := range op.Es {
					if j > 0 {
						sx.WriteString(" ")
					}
					fmt.Fprintf(&sx, "%d", e)
				}
				sx.WriteString(")")
			}
			sx.WriteString(")")
			r := vars[op.V]
			operands := func() []*validate.Result {
				var l []*validate.Result
				for _, w := range op.Es {
					l = append(l, vars[w])
				}
				return l
			}
			msgs := func() []error {
				var l []error
				for _, e := range op.Es {
					l = append(l, c20Msg(e))
				}
				return l
			}
			switch op.K {
			case 0:
				r.AddErrors(msgs()...)
			case 1:
				r.AddWarnings(msgs()...)
			case 2:
				r.Merge(operands()...)
			case 3:
				r.MergeAsErrors(operands()...)
			case 4:
				r.MergeAsWarnings(operands()...)
			case 5:
				r.Inc()
			case 6:
				vars[op.V] = new(validate.Result)
			case 7:
				vars[op.V] = nil
			}
			obs.WriteString("(")
			for j := range vars {
				if j > 0 {
					obs.WriteString(" ")
				}
				obs.WriteString(c20View(vars[j]))
			}
			obs.WriteString(")")
		}
		sx.WriteString(")")
		obs.WriteString(")")
		rec := map[string]interface{}{"id": c.ID, "sx": sx.String(), "obs": obs.String(), "nops": len(c.Ops)}
		b, _ := json.Marshal(rec)
		out.Write(b)
		out.WriteString("\n")
	}
}
