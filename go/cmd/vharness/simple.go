package main

// Parameter / header validators on typed Go values (C13 C16, and the parameter part of C08 C09).

import (
	"bufio"
	"encoding/json"
	"fmt"
	"math"
	"math/rand"
	"reflect"
	"strconv"
	"strings"

	"github.com/go-openapi/spec"
	"github.com/go-openapi/strfmt"
	"github.com/go-openapi/validate"
)

// typedVal is the JSON description of a typed Go value.
type typedVal struct {
	K string     `json:"k"`           // nil bool string int..uint64 float32 float64 jnum slice
	V string     `json:"v,omitempty"` // scalar literal
	E string     `json:"e,omitempty"` // slice: element type (a kind name, "iface", or "[]"+element type)
	L []typedVal `json:"l,omitempty"` // slice elements
}

type simpleCase struct {
	ID     int             `json:"id"`
	Header bool            `json:"header,omitempty"`
	Def    json.RawMessage `json:"def"` // spec.Parameter or spec.Header JSON
	Name   string          `json:"name,omitempty"`
	Val    typedVal        `json:"val"`
}

var kindTypes = map[string]reflect.Type{
	"int": reflect.TypeOf(int(0)), "int8": reflect.TypeOf(int8(0)), "int16": reflect.TypeOf(int16(0)),
	"int32": reflect.TypeOf(int32(0)), "int64": reflect.TypeOf(int64(0)), "uint": reflect.TypeOf(uint(0)),
	"uint8": reflect.TypeOf(uint8(0)), "uint16": reflect.TypeOf(uint16(0)), "uint32": reflect.TypeOf(uint32(0)),
	"uint64": reflect.TypeOf(uint64(0)), "float32": reflect.TypeOf(float32(0)), "float64": reflect.TypeOf(float64(0)),
	"string": reflect.TypeOf(""), "bool": reflect.TypeOf(false),
	"iface":  reflect.TypeOf((*interface{})(nil)).Elem(),
	"ptrint": reflect.TypeOf((*int)(nil)), // element type only (C14: slices of pointers)
}

var kindCodes = map[string]int{"int": 0, "int8": 1, "int16": 2, "int32": 3, "int64": 4, "uint": 5, "uint8": 6, "uint16": 7,
	"uint32": 8, "uint64": 9, "float32": 10, "float64": 11, "string": 12, "bool": 13, "iface": 14, "ptrint": 15}

func elemType(e string) reflect.Type {
	if strings.HasPrefix(e, "[]") {
		return reflect.SliceOf(elemType(e[2:]))
	}
	return kindTypes[e]
}

func elemCode(e string) int {
	if strings.HasPrefix(e, "[]") {
		return 100 + elemCode(e[2:])
	}
	return kindCodes[e]
}

// build returns the Go value and its model encoding.
func (tv *typedVal) build(e *enc) (interface{}, string) {
	switch tv.K {
	case "nil":
		return nil, "(0)"
	case "bool":
		b := tv.V == "true"
		return b, fmt.Sprintf("(1 %d)", b2i(b))
	case "string":
		e.instStrs[tv.V] = struct{}{}
		return tv.V, fmt.Sprintf("(2 %d)", e.in.id(tv.V))
	case "jnum":
		return json.Number(tv.V), e.goval(json.Number(tv.V), true)
	case "float32":
		f, _ := strconv.ParseFloat(tv.V, 32)
		return float32(f), fmt.Sprintf("(3 1 %d)", math.Float64bits(float64(float32(f))))
	case "float64":
		f, _ := strconv.ParseFloat(tv.V, 64)
		return f, fmt.Sprintf("(3 0 %d)", math.Float64bits(f))
	case "slice":
		et := elemType(tv.E)
		sl := reflect.MakeSlice(reflect.SliceOf(et), 0, len(tv.L))
		parts := make([]string, 0, len(tv.L))
		for i := range tv.L {
			v, sx := tv.L[i].build(e)
			parts = append(parts, sx)
			if v == nil {
				sl = reflect.Append(sl, reflect.Zero(et))
			} else {
				sl = reflect.Append(sl, reflect.ValueOf(v))
			}
		}
		if tv.E == "iface" {
			id := e.nextObjID
			e.nextObjID++
			return sl.Interface(), fmt.Sprintf("(6 %d (%s))", id, strings.Join(parts, " "))
		}
		return sl.Interface(), fmt.Sprintf("(8 %d (%s))", elemCode(tv.E), strings.Join(parts, " "))
	default:
		t, ok := kindTypes[tv.K]
		if !ok {
			e.unsupported = "typed value kind " + tv.K
			return nil, "(0)"
		}
		rv := reflect.New(t).Elem()
		if strings.HasPrefix(tv.K, "uint") {
			u, _ := strconv.ParseUint(tv.V, 10, 64)
			rv.SetUint(u)
			return rv.Interface(), fmt.Sprintf("(4 %d %d)", kindCodes[tv.K], rv.Uint())
		}
		i, _ := strconv.ParseInt(tv.V, 10, 64)
		rv.SetInt(i)
		return rv.Interface(), fmt.Sprintf("(4 %d %d)", kindCodes[tv.K], rv.Int())
	}
}

func (e *enc) simple(typ, format string, nullable bool, cv *spec.CommonValidations, def interface{}, items *spec.Items) string {
	var f []string
	f = append(f, strconv.Itoa(e.in.id(typ)), strconv.Itoa(b2i(nullable)), strconv.Itoa(e.in.id(format)))
	if format != "" {
		e.formats[format] = struct{}{}
	}
	if def == nil {
		f = append(f, "()")
	} else {
		f = append(f, "("+e.goval(def, false)+")")
	}
	en := make([]string, len(cv.Enum))
	for i, v := range cv.Enum {
		en[i] = e.goval(v, false)
	}
	f = append(f, "("+strings.Join(en, " ")+")")
	f = append(f, optFloat(cv.MultipleOf), optFloat(cv.Maximum), strconv.Itoa(b2i(cv.ExclusiveMaximum)),
		optFloat(cv.Minimum), strconv.Itoa(b2i(cv.ExclusiveMinimum)), optInt(cv.MaxLength), optInt(cv.MinLength))
	f = append(f, strconv.Itoa(e.in.id(cv.Pattern)))
	if cv.Pattern != "" {
		e.patterns[cv.Pattern] = struct{}{}
	}
	f = append(f, optInt(cv.MaxItems), optInt(cv.MinItems), strconv.Itoa(b2i(cv.UniqueItems)))
	if items == nil {
		f = append(f, "()")
	} else {
		f = append(f, "("+e.simple(items.Type, items.Format, items.Nullable, &items.CommonValidations, items.Default, items.Items)+")")
	}
	return "(" + strings.Join(f, " ") + ")"
}

type simpleObs struct {
	Outcome string  `json:"outcome"` // ok | panic
	Panic   string  `json:"panic,omitempty"`
	Nil     bool    `json:"nil"`
	Valid   bool    `json:"valid"`
	Errors  []goErr `json:"errors"`
	MC      int     `json:"mc"`
}

func classifySimple(err error) goErr {
	g := classify(err)
	if strings.Contains(g.Text, "value must be of type") {
		return goErr{2001, "", g.Text}
	}
	if strings.HasSuffix(g.Text, " is an invalid type name") {
		return goErr{2002, "", g.Text}
	}
	return g
}

func runSimple(c *simpleCase, val interface{}, opts ...validate.Option) (obs simpleObs) {
	defer func() {
		if r := recover(); r != nil {
			obs = simpleObs{Outcome: "panic", Panic: panicClass(r) + ": " + fmt.Sprint(r), Errors: []goErr{}}
		}
	}()
	var res *validate.Result
	if c.Header {
		h := new(spec.Header)
		if err := json.Unmarshal(c.Def, h); err != nil {
			return simpleObs{Outcome: "undecodable", Errors: []goErr{}}
		}
		res = validate.NewHeaderValidator(c.Name, h, strfmt.Default, opts...).Validate(val)
	} else {
		p := new(spec.Parameter)
		if err := json.Unmarshal(c.Def, p); err != nil {
			return simpleObs{Outcome: "undecodable", Errors: []goErr{}}
		}
		res = validate.NewParamValidator(p, strfmt.Default, opts...).Validate(val)
	}
	obs = simpleObs{Outcome: "ok", Nil: res == nil, Valid: res.IsValid(), Errors: []goErr{}}
	if res != nil {
		obs.MC = res.MatchCount
		for _, e := range res.Errors {
			obs.Errors = append(obs.Errors, classifySimple(e))
		}
	}
	return obs
}

var lastOrcJSON map[string]interface{}

func simpleModelInput(c *simpleCase) (string, []string, interface{}, string) {
	e := newEnc()
	val, valSx := c.Val.build(e)
	var rootSx string
	if c.Header {
		h := new(spec.Header)
		if err := json.Unmarshal(c.Def, h); err != nil {
			return "", nil, nil, "header does not decode"
		}
		rootSx = fmt.Sprintf("(1 %d 1 0 %s)", e.in.id(c.Name), e.simple(h.Type, h.Format, h.Nullable, &h.CommonValidations, h.Default, h.Items))
	} else {
		p := new(spec.Parameter)
		if err := json.Unmarshal(c.Def, p); err != nil {
			return "", nil, nil, "parameter does not decode"
		}
		rootSx = fmt.Sprintf("(0 %d %d %d %s)", e.in.id(p.Name), b2i(p.Required), b2i(p.AllowEmptyValue),
			e.simple(p.Type, p.Format, p.Nullable, &p.CommonValidations, p.Default, p.Items))
	}
	if e.unsupported != "" {
		return "", nil, nil, e.unsupported
	}
	// fixed ids used by the model for format names
	orc := e.oracles(strfmt.Default, nil)
	lastOrcJSON = e.orcJSON
	return fmt.Sprintf("(%s %s %s)", orc, rootSx, valSx), e.in.texts, val, ""
}

func simpleRun(in *bufio.Scanner, out *bufio.Writer) {
	for in.Scan() {
		var c simpleCase
		if err := json.Unmarshal(in.Bytes(), &c); err != nil {
			fmt.Fprintf(out, "{\"id\":-1,\"error\":%q}\n", err.Error())
			continue
		}
		rec := map[string]interface{}{"id": c.ID}
		sx, texts, val, why := simpleModelInput(&c)
		if why != "" {
			rec["skip"] = why
		} else {
			rec["sx"] = sx
			rec["strings"] = texts
			rec["orc"] = lastOrcJSON
			rec["go"] = runSimple(&c, val)
			// the same call through a recycling validator (C04/C16: same verdict)
			rec["go_recycled"] = runSimple(&c, val, validate.WithRecycleValidators(true))
		}
		b, _ := json.Marshal(rec)
		out.Write(b)
		out.WriteString("\n")
	}
}

// ---- generator ----

type qgen struct{ rng *rand.Rand }

func (g *qgen) pick(l []string) string { return l[g.rng.Intn(len(l))] }

var intKinds = []string{"int", "int8", "int16", "int32", "int64", "uint", "uint8", "uint16", "uint32", "uint64"}

func (g *qgen) numLit(frac bool) string {
	if frac {
		return g.pick([]string{"0.5", "1.5", "2.5", "3.5", "-3.5", "-0.5", "0.1", "0.3", "0.01", "7.25", "1e30", "-1e30", "2147483648", "4294967296", "9007199254740992", "9223372036854775808", "-9223372036854775808", "18446744073709551616", "3", "-3", "0", "10", "100", "1000000"})
	}
	return g.pick([]string{"0", "1", "2", "3", "4", "5", "6", "7", "10", "100", "127", "128", "255", "256", "-1", "-2", "-3", "-128", "-129", "32767", "65535", "2147483647", "2147483648", "4294967295", "9007199254740991"})
}

func (g *qgen) scalar(kind string) typedVal {
	switch kind {
	case "bool":
		return typedVal{K: "bool", V: g.pick([]string{"true", "false"})}
	case "string":
		return typedVal{K: "string", V: g.pick(genStrings)}
	case "float32", "float64":
		return typedVal{K: kind, V: g.numLit(true)}
	case "jnum":
		return typedVal{K: "jnum", V: g.numLit(g.rng.Intn(2) == 0)}
	default: // integer kinds: keep the literal inside the range of the kind
		bits := map[string]uint{"int8": 7, "int16": 15, "int32": 31, "int64": 63, "int": 63, "uint8": 8, "uint16": 16, "uint32": 32, "uint64": 64, "uint": 64}[kind]
		for {
			lit := g.numLit(false)
			if strings.HasPrefix(kind, "uint") {
				u, err := strconv.ParseUint(lit, 10, 64)
				if err == nil && (bits == 64 || u < 1<<bits) {
					return typedVal{K: kind, V: lit}
				}
			} else {
				i, err := strconv.ParseInt(lit, 10, 64)
				if err == nil && (bits == 63 || (i < 1<<bits && i >= -(1<<bits))) {
					return typedVal{K: kind, V: lit}
				}
			}
		}
	}
}

// value for a declared simple schema: mostly of a matching kind
func (g *qgen) valueFor(def jmap, depth int) typedVal {
	t, _ := def["type"].(string)
	if g.rng.Intn(8) == 0 {
		t = g.pick([]string{"string", "integer", "number", "boolean", "array"})
	}
	switch t {
	case "string":
		return g.scalar("string")
	case "boolean":
		return g.scalar("bool")
	case "integer":
		if g.rng.Intn(6) == 0 {
			return g.scalar(g.pick([]string{"float64", "float32"}))
		}
		return g.scalar(g.pick(intKinds))
	case "number":
		if g.rng.Intn(3) == 0 {
			return g.scalar(g.pick(intKinds))
		}
		return g.scalar(g.pick([]string{"float64", "float32"}))
	case "array":
		items, _ := def["items"].(jmap)
		n := g.rng.Intn(4)
		if items == nil || depth <= 0 {
			e := g.pick([]string{"string", "int32", "float64", "iface"})
			tv := typedVal{K: "slice", E: e}
			for i := 0; i < n; i++ {
				if e == "iface" {
					if g.rng.Intn(10) == 0 {
						tv.L = append(tv.L, typedVal{K: "nil"})
						continue
					}
					tv.L = append(tv.L, g.scalar(g.pick([]string{"string", "int64", "float64", "bool"})))
				} else {
					tv.L = append(tv.L, g.scalar(e))
				}
			}
			return tv
		}
		var elems []typedVal
		for i := 0; i < n; i++ {
			elems = append(elems, g.valueFor(items, depth-1))
		}
		if n > 0 && g.rng.Intn(8) == 0 {
			elems[g.rng.Intn(n)] = typedVal{K: "nil"} // a null element (JSON [null]): kind Invalid inside the items validator
		}
		// a typed slice when all elements share a type, otherwise []interface{}
		e := "iface"
		if n > 0 && g.rng.Intn(3) != 0 {
			e0 := typeName(&elems[0])
			same := true
			for i := range elems {
				if typeName(&elems[i]) != e0 {
					same = false
				}
			}
			if same {
				e = e0
			}
		} else if n == 0 {
			e = g.pick([]string{"string", "int64", "iface"})
		}
		return typedVal{K: "slice", E: e, L: elems}
	}
	return g.scalar(g.pick([]string{"string", "int64", "float64", "bool"}))
}

func typeName(tv *typedVal) string {
	if tv.K == "slice" {
		return "[]" + tv.E
	}
	if tv.K == "jnum" || tv.K == "nil" {
		return "iface"
	}
	return tv.K
}

func (g *qgen) simpleDef(depth int, numericFocus bool) jmap {
	d := jmap{}
	t := g.pick([]string{"string", "integer", "number", "boolean", "array"})
	if numericFocus {
		t = g.pick([]string{"integer", "number"})
	}
	d["type"] = t
	switch t {
	case "string":
		if g.rng.Intn(3) == 0 {
			d["format"] = g.pick([]string{"date", "email", "uuid", "date-time", "password"})
		}
		switch g.rng.Intn(5) {
		case 0:
			d["maxLength"] = g.rng.Intn(5)
		case 1:
			d["minLength"] = g.rng.Intn(5)
		case 2:
			d["pattern"] = g.pick([]string{"^a", "a+", "^[a-z]+$", "\\d+", "b$"})
		}
		if g.rng.Intn(4) == 0 {
			d["enum"] = []interface{}{g.pick(genStrings), g.pick(genStrings)}
		}
	case "integer", "number":
		if g.rng.Intn(2) == 0 {
			if t == "integer" {
				d["format"] = g.pick([]string{"int32", "int64"})
			} else {
				d["format"] = g.pick([]string{"float", "double"})
			}
		}
		n := 1 + g.rng.Intn(2)
		for i := 0; i < n; i++ {
			switch g.rng.Intn(4) {
			case 0:
				d["maximum"] = json.Number(g.numLit(g.rng.Intn(2) == 0))
				if g.rng.Intn(3) == 0 {
					d["exclusiveMaximum"] = true
				}
			case 1:
				d["minimum"] = json.Number(g.numLit(g.rng.Intn(2) == 0))
				if g.rng.Intn(3) == 0 {
					d["exclusiveMinimum"] = true
				}
			case 2:
				d["multipleOf"] = json.Number(g.pick([]string{"1", "2", "3", "5", "10", "0.5", "1.5", "0.1", "0.01", "0.25"}))
			default:
				d["enum"] = []interface{}{json.Number(g.numLit(false)), json.Number(g.numLit(false)), json.Number(g.numLit(true))}
			}
		}
	case "array":
		switch g.rng.Intn(4) {
		case 0:
			d["maxItems"] = g.rng.Intn(4)
		case 1:
			d["minItems"] = g.rng.Intn(4)
		case 2:
			d["uniqueItems"] = true
		}
		if depth > 0 {
			d["items"] = g.simpleDef(depth-1, false)
		} else {
			d["items"] = jmap{"type": "string"}
		}
	}
	return d
}

func simpleGen(seed int64, n int, tier string, out *bufio.Writer) {
	rng := rand.New(rand.NewSource(seed))
	g := &qgen{rng: rng}
	enc := json.NewEncoder(out)
	for id := 0; id < n; id++ {
		numeric := id%3 == 0
		def := g.simpleDef(rng.Intn(4), numeric)
		c := simpleCase{ID: id, Header: rng.Intn(3) == 0}
		if !c.Header {
			def["name"] = g.pick([]string{"p", "limit", "a.a"})
			def["in"] = g.pick([]string{"query", "path", "header", "formData"})
			if rng.Intn(4) == 0 {
				def["required"] = true
			}
		} else {
			c.Name = g.pick([]string{"X-Rate", "h"})
		}
		c.Val = g.valueFor(def, 4)
		if rng.Intn(40) == 0 {
			c.Val = typedVal{K: "nil"}
		}
		c.Def, _ = json.Marshal(def)
		_ = enc.Encode(c)
	}
}

func init() {
	props["simple"] = propCmd{gen: simpleGen, run: simpleRun}
}
