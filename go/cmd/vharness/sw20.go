package main

// C02: the Swagger 2.0 schema the code embeds, as the model sees it, printed as a Coq term (regenerated on every run).

import (
	"bufio"
	"fmt"
	"strings"
)

// sxToCoq turns "(1 (2 3))" into "L [A 1; L [A 2; A 3]]"
func sxToCoq(s string) string {
	var b strings.Builder
	first := []bool{true}
	i := 0
	for i < len(s) {
		c := s[i]
		switch {
		case c == '(':
			if !first[len(first)-1] {
				b.WriteString("; ")
			}
			first[len(first)-1] = false
			b.WriteString("L [")
			first = append(first, true)
			i++
		case c == ')':
			b.WriteString("]")
			first = first[:len(first)-1]
			i++
		case c == ' ':
			i++
		default:
			j := i
			for j < len(s) && s[j] != ' ' && s[j] != '(' && s[j] != ')' {
				j++
			}
			if !first[len(first)-1] {
				b.WriteString("; ")
			}
			first[len(first)-1] = false
			tok := s[i:j]
			if strings.HasPrefix(tok, "-") {
				b.WriteString("A (" + tok + ")")
			} else {
				b.WriteString("A " + tok)
			}
			i = j
		}
	}
	return b.String()
}

func sw20Gen(_ int64, _ int, _ string, out *bufio.Writer) {
	sc := schemaCase{Schema: swaggerSchemaJSON(), Data: []byte("{}"), Root: "", Swagger: true}
	sx, texts, why := modelInput(&sc, 200)
	fmt.Fprintln(out, "(* GENERATED from /repo's dependency go-openapi/spec (spec.MustLoadSwagger20Schema) by `vharness sw20 gen` on every run. *)")
	fmt.Fprintln(out, "From Coq Require Import List ZArith.")
	fmt.Fprintln(out, "From Verif Require Import Base.Sx.")
	fmt.Fprintln(out, "Import ListNotations.")
	fmt.Fprintln(out, "Open Scope Z_scope.")
	if why != "" {
		fmt.Fprintf(out, "(* the schema is outside what the model represents: %s *)\nDefinition swagger20_case : sx := L [].\n", why)
		return
	}
	fmt.Fprintf(out, "(* case layout: (oracles options defs schema root data fuel dectable); %d interned strings *)\n", len(texts))
	fmt.Fprintf(out, "Definition swagger20_case : sx :=\n  %s.\n", sxToCoq(sx))
}

func init() {
	props["sw20"] = propCmd{gen: sw20Gen, run: func(*bufio.Scanner, *bufio.Writer) {}}
}
