package main

// Schema-level cases (C01 C06 C08 C17 ...): one (schema, instance, root path, options) per case.

import (
	"bufio"
	"bytes"
	"encoding/json"
	stderrors "errors"
	"fmt"
	"runtime/debug"
	"sort"
	"strconv"
	"strings"

	"github.com/go-openapi/errors"
	"github.com/go-openapi/spec"
	"github.com/go-openapi/strfmt"
	"github.com/go-openapi/validate"
)

type schemaCase struct {
	ID        int             `json:"id"`
	Schema    json.RawMessage `json:"schema"`
	Data      json.RawMessage `json:"data"`
	Root      string          `json:"root"`
	UseNumber bool            `json:"usenumber,omitempty"`
	Swagger   bool            `json:"swagger,omitempty"` // SwaggerSchema(true)
	Skip      bool            `json:"skip,omitempty"`    // WithSkipSchemataResult(true)
	NoFormats bool            `json:"noformats,omitempty"`
	Expect    *bool           `json:"expect,omitempty"` // verdict labelled by the JSON-Schema-Test-Suite, when known
	Origin    string          `json:"origin,omitempty"`
	Typed     *typedVal       `json:"typed,omitempty"` // a typed Go value instead of JSON data
}

// caseData returns the instance of a case as the Go value handed to the validator, with its model encoding.
func caseData(c *schemaCase, e *enc) (interface{}, string, error) {
	if c.Typed != nil {
		v, sx := c.Typed.build(e)
		return v, sx, nil
	}
	d, err := parseData(c.Data, c.UseNumber)
	if err != nil {
		return nil, "", err
	}
	return d, e.goval(d, true), nil
}

type goErr struct {
	Code int    `json:"code"`
	Name string `json:"name"`
	Text string `json:"text"`
}

type goRun struct {
	Outcome string  `json:"outcome"` // ok | panic
	Panic   string  `json:"panic,omitempty"`
	Stack   string  `json:"stack,omitempty"`
	Valid   bool    `json:"valid"`
	Errors  []goErr `json:"errors"`
	MC      int     `json:"mc"`
}

type goOneShot struct {
	Outcome string   `json:"outcome"`
	Panic   string   `json:"panic,omitempty"`
	Nil     bool     `json:"nil"`
	Code    int32    `json:"code"`
	Msgs    []string `json:"msgs"`
}

func panicClass(r interface{}) string {
	s := fmt.Sprint(r)
	switch {
	case strings.Contains(s, "index out of range"), strings.Contains(s, "reflect: slice index out of range"):
		return "index"
	case strings.Contains(s, "nil pointer dereference"), strings.Contains(s, "invalid memory address"):
		return "nil"
	case strings.Contains(s, "interface conversion"):
		return "assertion"
	case strings.Contains(s, "Invalid schema provided to SchemaValidator"):
		return "invalid-schema"
	default:
		return "other"
	}
}

// classify maps an error of a Result to (code, name): go-openapi/errors Validation errors keep their code and
// Name; the code-422 messages of schema_messages.go are told apart by their template.
func classify(err error) goErr {
	text := err.Error()
	var v *errors.Validation
	if stderrors.As(err, &v) {
		return goErr{Code: int(v.Code()), Name: v.Name, Text: text}
	}
	unq := func(prefix string) string {
		if s, e := strconv.Unquote(prefix); e == nil {
			return s
		}
		return prefix
	}
	try := func(sep string) (string, string, bool) {
		i := strings.LastIndex(text, sep)
		if i < 0 {
			return "", "", false
		}
		return text[:i], text[i+len(sep):], true
	}
	if a, _, ok := try(" must validate at least one schema (anyOf)"); ok {
		return goErr{1001, unq(a), text}
	}
	if a, b, ok := try(" must validate one and only one schema (oneOf). "); ok {
		if b == "Found none valid" {
			return goErr{1002, unq(a), text}
		}
		return goErr{1003, unq(a), text}
	}
	if a, b, ok := try(" must validate all the schemas (allOf)"); ok {
		if b == ". None validated" {
			return goErr{1004, unq(a), text}
		}
		return goErr{1005, unq(a), text}
	}
	if a, _, ok := try(" must not validate the schema (not)"); ok {
		return goErr{1006, unq(a), text}
	}
	if i := strings.Index(text, " has a dependency on "); i >= 0 {
		return goErr{1007, unq(text[:i]), text}
	}
	if text == validate.ArrayDoesNotAllowAdditionalItemsError {
		return goErr{1008, "", text}
	}
	if strings.HasPrefix(text, "invalid type conversion in ") {
		rest := strings.TrimPrefix(text, "invalid type conversion in ")
		if i := strings.Index(rest, ": "); i >= 0 {
			rest = rest[:i]
		}
		return goErr{1009, rest, text}
	}
	if strings.HasPrefix(text, "IMPORTANT!in ") {
		return goErr{1010, "", text}
	}
	if strings.Contains(text, "$ref are not allowed in headers") {
		return goErr{1011, "", text}
	}
	code := 0
	var ec errors.Error
	if stderrors.As(err, &ec) {
		code = int(ec.Code())
	}
	return goErr{code, "?", text}
}

func parseData(raw []byte, useNumber bool) (interface{}, error) {
	dec := json.NewDecoder(bytes.NewReader(raw))
	if useNumber {
		dec.UseNumber()
	}
	var v interface{}
	if err := dec.Decode(&v); err != nil {
		return nil, err
	}
	return v, nil
}

func parseSchema(raw []byte) (*spec.Schema, error) {
	s := new(spec.Schema)
	if err := json.Unmarshal(raw, s); err != nil {
		return nil, err
	}
	return s, nil
}

func caseOptions(c *schemaCase) []validate.Option {
	var o []validate.Option
	if c.Swagger {
		o = append(o, validate.SwaggerSchema(true))
	}
	if c.Skip {
		o = append(o, validate.WithSkipSchemataResult(true))
	}
	return o
}

func caseRegistry(c *schemaCase) strfmt.Registry {
	if c.NoFormats {
		return nil
	}
	return strfmt.Default
}

func observeResult(res *validate.Result) goRun {
	run := goRun{Outcome: "ok", Valid: res.IsValid(), Errors: []goErr{}}
	if res != nil {
		run.MC = res.MatchCount
		for _, e := range res.Errors {
			run.Errors = append(run.Errors, classify(e))
		}
	}
	return run
}

// runValidator: NewSchemaValidator(schema, nil, root, formats, opts...).Validate(data) on fresh copies.
func runValidator(c *schemaCase, extra ...validate.Option) (run goRun, res *validate.Result) {
	defer func() {
		if r := recover(); r != nil {
			run = goRun{Outcome: "panic", Panic: panicClass(r) + ": " + fmt.Sprint(r), Stack: shortStack(), Errors: []goErr{}}
		}
	}()
	s, err := parseSchema(c.Schema)
	if err != nil {
		return goRun{Outcome: "undecodable", Errors: []goErr{}}, nil
	}
	d, _, err := caseData(c, newEnc())
	if err != nil {
		return goRun{Outcome: "undecodable", Errors: []goErr{}}, nil
	}
	v := validate.NewSchemaValidator(s, nil, c.Root, caseRegistry(c), append(caseOptions(c), extra...)...)
	res = v.Validate(d)
	return observeResult(res), res
}

func runOneShot(c *schemaCase) (one goOneShot) {
	defer func() {
		if r := recover(); r != nil {
			one = goOneShot{Outcome: "panic", Panic: panicClass(r) + ": " + fmt.Sprint(r), Msgs: []string{}}
			// a panic inside a recycling validation leaves the pools corrupted (that is property C11's subject):
			// start from fresh pools so that the following cases are independent of this one
			validate.VerifReset(validate.VerifOff, false)
		}
	}()
	s, err := parseSchema(c.Schema)
	if err != nil {
		return goOneShot{Outcome: "undecodable", Msgs: []string{}}
	}
	d, _, err := caseData(c, newEnc())
	if err != nil {
		return goOneShot{Outcome: "undecodable", Msgs: []string{}}
	}
	e := validate.AgainstSchema(s, d, caseRegistry(c), caseOptions(c)...)
	one = goOneShot{Outcome: "ok", Nil: e == nil, Msgs: []string{}}
	if e != nil {
		var ce *errors.CompositeError
		if stderrors.As(e, &ce) {
			one.Code = ce.Code()
			for _, m := range ce.Errors {
				one.Msgs = append(one.Msgs, m.Error())
			}
		} else {
			one.Code = -1
			one.Msgs = append(one.Msgs, e.Error())
		}
	}
	return one
}

func shortStack() string {
	lines := strings.Split(string(debug.Stack()), "\n")
	var keep []string
	for _, l := range lines {
		if strings.Contains(l, "go-openapi/validate") || strings.Contains(l, "/repo/") {
			keep = append(keep, strings.TrimSpace(l))
		}
		if len(keep) >= 8 {
			break
		}
	}
	return strings.Join(keep, " | ")
}

// modelInput builds the s-expression (oracles options defs schema root data fuel) of a case, or "" with a
// reason when the case is outside what the model represents.
// lastSchemaEnc is the encoder (interner) of the last modelInput call: outputs are encoded with the same ids.
var lastSchemaEnc *enc

func modelInput(c *schemaCase, fuel int) (string, []string, string) {
	e := newEnc()
	lastSchemaEnc = e
	s, err := parseSchema(c.Schema)
	if err != nil {
		return "", nil, "schema does not decode"
	}
	if _, _, err := caseData(c, newEnc()); err != nil {
		return "", nil, "data does not decode"
	}
	if why := unsupportedRefs(c.Schema); why != "" {
		return "", nil, why
	}
	schemaSx := e.schema(s)
	// definitions environment: every reference, expanded the way newSchemaValidator expands it when it meets it
	refs := map[string]struct{}{}
	collectRefs(s, refs)
	done := map[string]string{}
	for len(refs) > 0 {
		var names []string
		for r := range refs {
			names = append(names, r)
		}
		sort.Strings(names)
		refs = map[string]struct{}{}
		for _, r := range names {
			if _, ok := done[r]; ok {
				continue
			}
			root, _ := parseSchema(c.Schema)
			w := new(spec.Schema)
			w.Ref = spec.MustCreateRef(r)
			ok := func() (ok bool) {
				defer func() {
					if recover() != nil {
						ok = false
					}
				}()
				return spec.ExpandSchema(w, root, nil) == nil
			}()
			if !ok || w.Ref.String() == r {
				done[r] = "" // unresolvable (or a bare self reference): absent from the environment
				continue
			}
			done[r] = e.schema(w)
			more := map[string]struct{}{}
			collectRefs(w, more)
			for m := range more {
				if _, ok := done[m]; !ok {
					refs[m] = struct{}{}
				}
			}
		}
	}
	var defs []string
	var dnames []string
	for r := range done {
		dnames = append(dnames, r)
	}
	sort.Strings(dnames)
	for _, r := range dnames {
		if done[r] != "" {
			defs = append(defs, fmt.Sprintf("(%d %s)", e.in.id(r), done[r]))
		}
	}
	_, dataSx, _ := caseData(c, e)
	rootID := e.in.id(c.Root)
	opts := e.options(c.Swagger, c.Swagger, c.Skip)
	orc := e.oracles(caseRegistry(c), nil)
	if e.unsupported != "" {
		return "", nil, e.unsupported
	}
	sx := fmt.Sprintf("(%s %s (%s) %s %d %s %d %s)", orc, opts, strings.Join(defs, " "), schemaSx, rootID, dataSx, fuel, decTable(c.Schema, c.Data))
	return sx, e.in.texts, ""
}

func schemaRun(in *bufio.Scanner, out *bufio.Writer) {
	for in.Scan() {
		var c schemaCase
		if err := json.Unmarshal(in.Bytes(), &c); err != nil {
			fmt.Fprintf(out, "{\"id\":-1,\"error\":%q}\n", err.Error())
			continue
		}
		rec := map[string]interface{}{"id": c.ID}
		sx, texts, why := modelInput(&c, caseFuel(&c))
		if why != "" {
			rec["skip"] = why
		} else {
			rec["sx"] = sx
			rec["strings"] = texts
		}
		run, _ := runValidator(&c)
		rec["go"] = run
		rec["oneshot"] = runOneShot(&c)
		b, _ := json.Marshal(rec)
		out.Write(b)
		out.WriteString("\n")
	}
}

func init() {
	props["schema"] = propCmd{gen: schemaGen, run: schemaRun}
}

// unsupportedRefs scans the raw schema for "$ref" members that are not local references into definitions.
func unsupportedRefs(raw []byte) string {
	var v interface{}
	if json.Unmarshal(raw, &v) != nil {
		return ""
	}
	why := ""
	var walk func(x interface{})
	walk = func(x interface{}) {
		switch t := x.(type) {
		case map[string]interface{}:
			for k, el := range t {
				if k == "$ref" {
					if r, ok := el.(string); ok {
						if r == "#" || r == "" {
							why = "reference to the document root: " + r
						}
						continue
					}
				}
				if k == "enum" || k == "default" {
					continue
				}
				walk(el)
			}
		case []interface{}:
			for _, el := range t {
				walk(el)
			}
		}
	}
	walk(v)
	return why
}

func jsonDepth(v interface{}) int {
	d := 0
	switch t := v.(type) {
	case map[string]interface{}:
		for _, el := range t {
			if x := jsonDepth(el); x > d {
				d = x
			}
		}
		return d + 1
	case []interface{}:
		for _, el := range t {
			if x := jsonDepth(el); x > d {
				d = x
			}
		}
		return d + 1
	}
	return 1
}

// caseFuel: every nesting level of the instance can cross the whole depth of the schema (through references)
func caseFuel(c *schemaCase) int {
	var sv, dv interface{}
	_ = json.Unmarshal(c.Schema, &sv)
	_ = json.Unmarshal(c.Data, &dv)
	sd, dd := jsonDepth(sv), jsonDepth(dv)
	f := 16 + (dd+1)*(sd+2)
	if !bytes.Contains(c.Schema, []byte("$ref")) {
		f = 16 + 2*sd
	}
	if f > 20000 {
		f = 20000
	}
	return f
}
