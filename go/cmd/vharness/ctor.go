package main

// Static facts for C04, regenerated from /repo's sources on every run (go/ast): for each pooled type, its struct
// fields and the fields its constructor (or, for Result, cleared()) assigns on every path. Printed as a Coq file.

import (
	"bufio"
	"fmt"
	"go/ast"
	"go/parser"
	"go/token"
	"os"
	"path/filepath"
	"sort"
	"strings"
)

var ctorOf = map[string]string{
	"SchemaValidator": "newSchemaValidator", "typeValidator": "newTypeValidator", "schemaPropsValidator": "newSchemaPropsValidator",
	"stringValidator": "newStringValidator", "formatValidator": "newFormatValidator", "numberValidator": "newNumberValidator",
	"schemaSliceValidator": "newSliceValidator", "basicCommonValidator": "newBasicCommonValidator", "objectValidator": "newObjectValidator",
	"itemsValidator": "newItemsValidator", "HeaderValidator": "newHeaderValidator", "ParamValidator": "newParamValidator",
	"basicSliceValidator": "newBasicSliceValidator", "Result": "cleared",
}

func ctorGen(_ int64, _ int, _ string, out *bufio.Writer) {
	repo := os.Getenv("VERIF_REPO")
	if repo == "" {
		repo = "/repo"
	}
	fset := token.NewFileSet()
	files, _ := filepath.Glob(filepath.Join(repo, "*.go"))
	fields := map[string][]string{}
	assigned := map[string]map[string]struct{}{}
	for _, f := range files {
		if strings.HasSuffix(f, "_test.go") {
			continue
		}
		af, err := parser.ParseFile(fset, f, nil, 0)
		if err != nil {
			continue
		}
		for _, d := range af.Decls {
			switch x := d.(type) {
			case *ast.GenDecl:
				for _, s := range x.Specs {
					ts, ok := s.(*ast.TypeSpec)
					if !ok {
						continue
					}
					st, ok := ts.Type.(*ast.StructType)
					if !ok {
						continue
					}
					if _, want := ctorOf[ts.Name.Name]; !want {
						continue
					}
					for _, fl := range st.Fields.List {
						for _, n := range fl.Names {
							fields[ts.Name.Name] = append(fields[ts.Name.Name], n.Name)
						}
					}
				}
			case *ast.FuncDecl:
				for tname, cname := range ctorOf {
					if x.Name.Name != cname {
						continue
					}
					if cname == "cleared" { // method of *Result
						if x.Recv == nil {
							continue
						}
					}
					set := mustAssign(x.Body.List)
					assigned[tname] = set
				}
			}
		}
	}
	var names []string
	for n := range ctorOf {
		names = append(names, n)
	}
	sort.Strings(names)
	fmt.Fprintln(out, "(* GENERATED from /repo by `vharness ctor gen` on every run - do not edit. *)")
	fmt.Fprintln(out, "From Coq Require Import List String Bool.")
	fmt.Fprintln(out, "Import ListNotations.")
	fmt.Fprintln(out, "Open Scope string_scope.")
	fmt.Fprintln(out, "(* (pooled type, fields of the struct, fields assigned by its constructor / cleared()) *)")
	fmt.Fprintln(out, "Definition ctor_table : list (string * list string * list string) := [")
	q := func(l []string) string {
		parts := make([]string, len(l))
		for i, s := range l {
			parts[i] = fmt.Sprintf("%q", s)
		}
		return "[" + strings.Join(parts, "; ") + "]"
	}
	for i, n := range names {
		var as []string
		for a := range assigned[n] {
			as = append(as, a)
		}
		sort.Strings(as)
		sep := ";"
		if i == len(names)-1 {
			sep = ""
		}
		fmt.Fprintf(out, "  (%q, %s, %s)%s\n", n, q(fields[n]), q(as), sep)
	}
	fmt.Fprintln(out, "].")
}

// mustAssign returns the fields assigned on every path through the statements: an assignment under a condition counts only
// when both branches make it, a loop body does not count (it may run zero times) except the clearing idiom
// "for k := range x.F { delete(x.F, k) }", and nothing counts after a conditional return of something other than nil
// (the object would leave the constructor without the later assignments).
func mustAssign(stmts []ast.Stmt) map[string]struct{} {
	set := map[string]struct{}{}
	for _, st := range stmts {
		switch a := st.(type) {
		case *ast.AssignStmt:
			for _, l := range a.Lhs {
				if name := baseField(l); name != "" {
					set[name] = struct{}{}
				}
			}
		case *ast.BlockStmt:
			for k := range mustAssign(a.List) {
				set[k] = struct{}{}
			}
		case *ast.IfStmt:
			if a.Else != nil {
				th := mustAssign(a.Body.List)
				var el map[string]struct{}
				switch e := a.Else.(type) {
				case *ast.BlockStmt:
					el = mustAssign(e.List)
				default:
					el = mustAssign([]ast.Stmt{e})
				}
				for k := range th {
					if _, ok := el[k]; ok {
						set[k] = struct{}{}
					}
				}
			}
			if returnsNonNil(a) {
				return set
			}
		case *ast.RangeStmt:
			if name := baseField(a.X); name != "" && len(a.Body.List) == 1 {
				if es, ok := a.Body.List[0].(*ast.ExprStmt); ok {
					if call, ok := es.X.(*ast.CallExpr); ok {
						if id, ok := call.Fun.(*ast.Ident); ok && id.Name == "delete" && len(call.Args) == 2 && baseField(call.Args[0]) == name {
							set[name] = struct{}{}
						}
					}
				}
			}
			if returnsNonNil(a) {
				return set
			}
		case *ast.ReturnStmt:
			return set
		default:
			if returnsNonNil(st) {
				return set
			}
		}
	}
	return set
}

// returnsNonNil: the statement contains a return of something other than the literal nil
func returnsNonNil(n ast.Node) bool {
	found := false
	ast.Inspect(n, func(m ast.Node) bool {
		if _, ok := m.(*ast.FuncLit); ok {
			return false
		}
		if r, ok := m.(*ast.ReturnStmt); ok {
			for _, e := range r.Results {
				if id, ok := e.(*ast.Ident); !ok || id.Name != "nil" {
					found = true
				}
			}
		}
		return true
	})
	return found
}

// baseField returns F for an expression of the form x.F, x.F.G, x.F[i] ... (x an identifier)
func baseField(e ast.Expr) string {
	for {
		switch x := e.(type) {
		case *ast.SelectorExpr:
			if _, ok := x.X.(*ast.Ident); ok {
				return x.Sel.Name
			}
			e = x.X
		case *ast.IndexExpr:
			e = x.X
		case *ast.StarExpr:
			e = x.X
		case *ast.ParenExpr:
			e = x.X
		default:
			return ""
		}
	}
}

func init() {
	props["ctor"] = propCmd{gen: ctorGen, run: func(*bufio.Scanner, *bufio.Writer) {}}
}
