package main

// C03: the analysed specification the rule code consumes (obtained through the very calls the validator makes:
// loads.Expanded, analysis.Operations / OperationIDs / SafeParamsFor), shipped to the model of the rules, and the
// errors Go reports for the document.

import (
	"bufio"
	"encoding/json"
	"fmt"
	"regexp"
	"sort"
	"strings"

	"github.com/go-openapi/analysis"
	"github.com/go-openapi/spec"
)

type rulesEnc struct {
	in   *interner
	pats map[string]struct{}
	strs map[string]struct{}
}

func (e *rulesEnc) id(s string) int { e.strs[s] = struct{}{}; return e.in.id(s) }

// schemaReq encodes what validateRequiredProperties reads of a schema, recursively through additionalProperties:
// (properties patternProperties additionalProperties) with additionalProperties = () | (allows (schema)?)
func (e *rulesEnc) schemaReq(s *spec.Schema, depth int) string {
	if s == nil || depth > 12 {
		return "(() () ())"
	}
	var props, pats []string
	pk := make([]string, 0, len(s.Properties))
	for k := range s.Properties {
		pk = append(pk, k)
	}
	sort.Strings(pk)
	for _, k := range pk {
		props = append(props, fmt.Sprint(e.id(k)))
	}
	qk := make([]string, 0, len(s.PatternProperties))
	for k := range s.PatternProperties {
		qk = append(qk, k)
	}
	sort.Strings(qk)
	for _, k := range qk {
		e.pats[k] = struct{}{}
		pats = append(pats, fmt.Sprint(e.in.id(k)))
	}
	ap := "()"
	if s.AdditionalProperties != nil {
		if s.AdditionalProperties.Schema != nil {
			ap = fmt.Sprintf("((%d (%s)))", b2i(s.AdditionalProperties.Allows), e.schemaReq(s.AdditionalProperties.Schema, depth+1))
		} else {
			ap = fmt.Sprintf("((%d ()))", b2i(s.AdditionalProperties.Allows))
		}
	}
	return fmt.Sprintf("((%s) (%s) %s)", strings.Join(props, " "), strings.Join(pats, " "), ap)
}

func bytesOf(s string) string { return bytesSx(s) }

func rulesRun(in *bufio.Scanner, out *bufio.Writer) {
	for in.Scan() {
		var c specCase
		if err := json.Unmarshal(in.Bytes(), &c); err != nil {
			continue
		}
		rec := map[string]interface{}{"id": c.ID}
		doc, err := loadDoc(&c)
		if err != nil {
			rec["skip"] = "unloadable"
			b, _ := json.Marshal(rec)
			out.Write(b)
			out.WriteString("\n")
			continue
		}
		// Go's verdicts in the four configurations
		runs := map[string]specRun{}
		for _, cont := range []bool{false, true} {
			for _, strict := range []bool{true, false} {
				runs[fmt.Sprintf("cont=%v,strict=%v", cont, strict)] = runSpec(&c, cont, strict)
			}
		}
		rec["runs"] = runs
		fp, _ := firstPass(&c)
		rec["first_pass_valid"] = fp.Outcome == "ok" && fp.Valid
		// the analysed specification
		func() {
			defer func() {
				if r := recover(); r != nil {
					rec["skip"] = "analysis panicked: " + fmt.Sprint(r)
				}
			}()
			e := &rulesEnc{in: newInterner(), pats: map[string]struct{}{}, strs: map[string]struct{}{}}
			e.in.id("body")     // 32
			e.in.id("formData") // 33
			e.in.id("path")     // 34
			exp, err := doc.Expanded()
			var an *analysis.Spec
			if err == nil && exp != nil && exp.Analyzer != nil {
				an = exp.Analyzer
			} else {
				an = analysis.New(doc.Spec())
				rec["expansion_failed"] = true
			}
			sw := doc.Spec()
			pathsNil := sw.Paths == nil
			pathsEmpty := sw.Paths != nil && sw.Paths.Paths == nil
			var pathKeys []string
			if sw.Paths != nil {
				for k := range sw.Paths.Paths {
					pathKeys = append(pathKeys, k)
				}
			}
			sort.Strings(pathKeys)
			var pk []string
			for _, k := range pathKeys {
				pk = append(pk, bytesOf(k))
			}
			// operations: (method pathbytes pathid opid (declared params) (merged params))
			var ops []string
			methods := make([]string, 0)
			for m := range an.Operations() {
				methods = append(methods, m)
			}
			sort.Strings(methods)
			for _, m := range methods {
				pi := an.Operations()[m]
				paths := make([]string, 0, len(pi))
				for p := range pi {
					paths = append(paths, p)
				}
				sort.Strings(paths)
				for _, p := range paths {
					op := pi[p]
					var declared []string
					for _, pr := range op.Parameters {
						// (name in) of the operation-level parameters, as resolveParam sees them after expansion
						declared = append(declared, fmt.Sprintf("(%d %d)", e.id(pr.Name), e.id(pr.In)))
					}
					merged := an.SafeParamsFor(m, p, nil)
					mk := make([]string, 0, len(merged))
					for k := range merged {
						mk = append(mk, k)
					}
					sort.Strings(mk)
					var mp []string
					for _, k := range mk {
						pr := merged[k]
						mp = append(mp, fmt.Sprintf("(%d %d %d %s)", e.id(pr.Name), e.id(pr.In), b2i(pr.Required), bytesOf(pr.Name)))
					}
					ops = append(ops, fmt.Sprintf("(%d %s %d %d (%s) (%s))", e.id(m), bytesOf(p), e.id(p), e.id(op.ID),
						strings.Join(declared, " "), strings.Join(mp, " ")))
				}
			}
			var ids []string
			for _, id := range an.OperationIDs() {
				ids = append(ids, fmt.Sprint(e.id(id)))
			}
			// definitions: (name (required...) schemaReq)
			dn := make([]string, 0, len(sw.Definitions))
			for k := range sw.Definitions {
				dn = append(dn, k)
			}
			sort.Strings(dn)
			var defs []string
			for _, k := range dn {
				s := sw.Definitions[k]
				var req []string
				for _, r := range s.Required {
					req = append(req, fmt.Sprint(e.id(r)))
				}
				defs = append(defs, fmt.Sprintf("(%d (%s) %s)", e.id(k), strings.Join(req, " "), e.schemaReq(&s, 0)))
			}
			// oracle: which pattern (compiled afresh) matches which string
			var strs []string
			for s := range e.strs {
				strs = append(strs, s)
			}
			sort.Strings(strs)
			var reok, rematch []string
			pats := make([]string, 0, len(e.pats))
			for p := range e.pats {
				pats = append(pats, p)
			}
			sort.Strings(pats)
			for _, p := range pats {
				re, err := regexp.Compile(p)
				if err != nil {
					continue
				}
				reok = append(reok, fmt.Sprint(e.in.id(p)))
				for _, s := range strs {
					if re.MatchString(s) {
						rematch = append(rematch, fmt.Sprintf("(%d %d)", e.in.id(p), e.in.id(s)))
					}
				}
			}
			rec["sx"] = fmt.Sprintf("(%d %d (%s) (%s) (%s) (%s) ((%s) (%s)))", b2i(pathsNil), b2i(pathsEmpty), strings.Join(pk, " "),
				strings.Join(ops, " "), strings.Join(ids, " "), strings.Join(defs, " "), strings.Join(reok, " "), strings.Join(rematch, " "))
			rec["strings"] = e.in.texts
		}()
		b, _ := json.Marshal(rec)
		out.Write(b)
		out.WriteString("\n")
	}
}

func init() {
	props["rules"] = propCmd{gen: func(int64, int, string, *bufio.Writer) {}, run: rulesRun}
}
