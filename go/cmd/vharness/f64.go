package main

// Self-test of the float model: Go's float64 operations vs the Flocq transcription, bit for bit.

import (
	"bufio"
	"encoding/json"
	"fmt"
	"math"
	"math/rand"

	"github.com/go-openapi/swag"
	"github.com/go-openapi/validate"
)

type f64Case struct {
	ID int    `json:"id"`
	Op int    `json:"op"`
	A  uint64 `json:"a"`
	B  uint64 `json:"b"`
}

func f64Gen(seed int64, n int, tier string, out *bufio.Writer) {
	rng := rand.New(rand.NewSource(seed))
	enc := json.NewEncoder(out)
	special := []float64{0, 1, -1, 0.1, 0.3, 0.5, 1.5, 2.5, 3.5, 1e9, 1e15, 1e30, -1e30, 9007199254740991, 9007199254740992, 9223372036854775807,
		9223372036854775808, 18446744073709551615, 18446744073709551616, -9223372036854775808, 5e-324, 1e308, 123456789.000001, 500000000.5, 0.01, 1e-9, 2147483648, 4294967296, 3.4028234663852886e38, 3.4028235677973366e38, 3.402823567797337e38}
	num := func() float64 {
		switch rng.Intn(4) {
		case 0:
			return special[rng.Intn(len(special))]
		case 1:
			return float64(rng.Int63n(2000001)-1000000) / []float64{1, 10, 100, 1000, 1000000}[rng.Intn(5)]
		case 2:
			return math.Float64frombits(rng.Uint64()&0x7FEFFFFFFFFFFFFF | uint64(rng.Intn(2))<<63)
		default:
			return float64(rng.Int63()) * []float64{1, -1, 1e-3, 4}[rng.Intn(4)]
		}
	}
	for id := 0; id < n; id++ {
		c := f64Case{ID: id, Op: rng.Intn(11), A: math.Float64bits(num()), B: math.Float64bits(num())}
		if c.Op == 8 { // float64(integer): A is the integer itself (as uint64 bit pattern of an int64 or a uint64)
			c.A = rng.Uint64() >> uint(rng.Intn(64))
		}
		_ = enc.Encode(c)
	}
}

func f64Run(in *bufio.Scanner, out *bufio.Writer) {
	for in.Scan() {
		var c f64Case
		if err := json.Unmarshal(in.Bytes(), &c); err != nil {
			continue
		}
		a, b := math.Float64frombits(c.A), math.Float64frombits(c.B)
		bi := func(x bool) string {
			if x {
				return "1"
			}
			return "0"
		}
		var sx, obs string
		switch c.Op {
		case 0:
			sx, obs = fmt.Sprintf("(0 %d %d)", c.A, c.B), fmt.Sprint(math.Float64bits(a/b))
		case 1:
			sx, obs = fmt.Sprintf("(1 %d %d)", c.A, c.B), fmt.Sprint(math.Float64bits(a*b))
		case 2:
			sx, obs = fmt.Sprintf("(2 %d %d)", c.A, c.B), fmt.Sprint(math.Float64bits(a+b))
		case 3:
			sx, obs = fmt.Sprintf("(3 %d %d)", c.A, c.B), fmt.Sprint(math.Float64bits(a-b))
		case 4:
			sx, obs = fmt.Sprintf("(4 %d %d)", c.A, c.B), bi(a < b)
		case 5:
			sx, obs = fmt.Sprintf("(5 %d %d)", c.A, c.B), bi(a == b)
		case 6:
			sx, obs = fmt.Sprintf("(6 %d)", c.A), fmt.Sprint(int64(a))
		case 7:
			sx, obs = fmt.Sprintf("(7 %d)", c.A), fmt.Sprint(uint64(a))
		case 8:
			sx, obs = fmt.Sprintf("(8 %d)", c.A), fmt.Sprint(math.Float64bits(float64(c.A)))
		case 9:
			sx, obs = fmt.Sprintf("(9 %d)", c.A), bi(swag.IsFloat64AJSONInteger(a))
		default:
			r := 0
			if e := validate.MultipleOf("p", "body", a, b); e != nil {
				r = 1
				if e.Code() == 618 {
					r = 2
				}
			}
			sx, obs = fmt.Sprintf("(10 %d %d)", c.A, c.B), fmt.Sprint(r)
		}
		// NaN results: compare as "nan" (payloads are not part of the model's contract)
		rec := map[string]interface{}{"id": c.ID, "sx": sx, "obs": obs, "op": c.Op}
		if c.Op <= 3 {
			var f float64
			fmt.Sscan(obs, new(uint64))
			u := uint64(0)
			fmt.Sscan(obs, &u)
			f = math.Float64frombits(u)
			if math.IsNaN(f) {
				rec["nan"] = true
			}
		}
		bb, _ := json.Marshal(rec)
		out.Write(bb)
		out.WriteString("\n")
	}
}

func init() {
	props["f64"] = propCmd{gen: f64Gen, run: f64Run}
}
