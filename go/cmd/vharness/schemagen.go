package main

// Generators of (schema, instance) cases. All randomness comes from one PRNG seeded by -seed.

import (
	"bufio"
	"encoding/json"
	"math/rand"
)

type jmap = map[string]interface{}

var (
	genKeys       = []string{"a", "b", "c", "x-1", "$schema", "id", "a.a", "é", "headers", "a%d", "100%"}
	schemaishKeys = []string{"type", "items", "default", "example", "examples", "properties", "a"}
	genStrings    = []string{"", "a", "ab", "abc", "héllo", "日本", "2020-01-01", "not-a-date", "x-1", "user@example.com", "aaa"}
	genNumbers    = []string{"0", "1", "-1", "2", "3", "1.5", "2.5", "-3.5", "3.0", "10", "100", "0.1", "0.3", "7", "1e3", "4", "6", "0.5", "-2"}
	genPatterns   = []string{"^a", "a+", "^[a-z]+$", "^x-", "(", "\\d+", ".*", "^é", "b$", "^a$", "^ab$", "^x-1$", "(?i)^A"}
	genFormats    = []string{"date", "date-time", "email", "uuid", "unknown-format"}
	genTypes      = []string{"null", "boolean", "string", "number", "integer", "array", "object"}
)

type sgen struct {
	rng       *rand.Rand
	defNames  []string
	malformed bool // degenerate keywords allowed (C06 stream)
	edgeNums  bool
	schemaish bool
}

func (g *sgen) pick(l []string) string { return l[g.rng.Intn(len(l))] }

// member names: the usual pool, or (schemaish) the names a Swagger schema object carries - the Swagger-mode checks of the
// object validator look at members called type / items and at paths ending in default, example, properties
func (g *sgen) keys() []string {
	if g.schemaish {
		return schemaishKeys
	}
	return genKeys
}

func (g *sgen) num() json.Number {
	if g.edgeNums && g.rng.Intn(8) == 0 {
		return json.Number(g.pick([]string{"123456789.000001", "999999999999999", "500000000.5", "1e15", "9007199254740992", "0.01", "1e308", "5e-324", "-9007199254740991", "4503599627370496.5"}))
	}
	return json.Number(g.pick(genNumbers))
}

func (g *sgen) intv(max int) json.Number { return json.Number(itoa(g.rng.Intn(max))) }

func itoa(i int) string {
	b, _ := json.Marshal(i)
	return string(b)
}

// value returns a random JSON value
func (g *sgen) value(depth int) interface{} {
	k := g.rng.Intn(9)
	if depth <= 0 && k >= 6 {
		k = g.rng.Intn(6)
	}
	switch k {
	case 0:
		return nil
	case 1:
		return g.rng.Intn(2) == 0
	case 2, 3:
		return g.num()
	case 4, 5:
		return g.pick(genStrings)
	case 6, 7:
		n := g.rng.Intn(5)
		l := make([]interface{}, n)
		for i := range l {
			l[i] = g.value(depth - 1)
		}
		return l
	default:
		n := g.rng.Intn(4)
		m := jmap{}
		for i := 0; i < n; i++ {
			m[g.pick(g.keys())] = g.value(depth - 1)
		}
		return m
	}
}

func (g *sgen) schema(depth int, allowRef bool) jmap {
	s := jmap{}
	if allowRef && len(g.defNames) > 0 && g.rng.Intn(7) == 0 {
		s["$ref"] = "#/definitions/" + g.pick(g.defNames)
		return s
	}
	ngroups := 1 + g.rng.Intn(3)
	if g.rng.Intn(12) == 0 {
		ngroups = 0
	}
	for i := 0; i < ngroups; i++ {
		grp := g.rng.Intn(13)
		if depth <= 0 && grp >= 8 {
			grp = g.rng.Intn(8)
		}
		switch grp {
		case 0: // type
			if g.rng.Intn(4) == 0 {
				s["type"] = []interface{}{g.pick(genTypes), g.pick(genTypes)}
			} else {
				s["type"] = g.pick(genTypes)
			}
		case 1: // enum
			n := 1 + g.rng.Intn(3)
			if g.malformed && g.rng.Intn(5) == 0 {
				n = 0
			}
			en := make([]interface{}, n)
			for j := range en {
				en[j] = g.value(1)
			}
			s["enum"] = en
		case 2: // numeric
			switch g.rng.Intn(3) {
			case 0:
				s["maximum"] = g.num()
				if g.rng.Intn(3) == 0 {
					s["exclusiveMaximum"] = true
				}
			case 1:
				s["minimum"] = g.num()
				if g.rng.Intn(3) == 0 {
					s["exclusiveMinimum"] = true
				}
			default:
				m := g.pick([]string{"1", "2", "3", "0.5", "1.5", "0.1", "0.01", "10"})
				if g.malformed && g.rng.Intn(3) == 0 {
					m = g.pick([]string{"0", "-1", "-0.5"})
				}
				s["multipleOf"] = json.Number(m)
			}
		case 3: // string
			switch g.rng.Intn(3) {
			case 0:
				s["maxLength"] = g.intv(5)
			case 1:
				s["minLength"] = g.intv(5)
			default:
				p := g.pick(genPatterns)
				if !g.malformed && p == "(" {
					p = "^a"
				}
				s["pattern"] = p
			}
		case 4: // format next to an explicit type (as in Swagger)
			s["format"] = g.pick(genFormats)
			if !g.malformed || g.rng.Intn(2) == 0 {
				s["type"] = "string"
			}
		case 5: // array sizes
			switch g.rng.Intn(3) {
			case 0:
				s["maxItems"] = g.intv(4)
			case 1:
				s["minItems"] = g.intv(4)
			default:
				s["uniqueItems"] = true
			}
		case 6: // object sizes / required
			switch g.rng.Intn(3) {
			case 0:
				s["maxProperties"] = g.intv(3)
			case 1:
				s["minProperties"] = g.intv(3)
			default:
				n := 1 + g.rng.Intn(2)
				if g.malformed && g.rng.Intn(4) == 0 {
					n = 0
				}
				req := make([]interface{}, n)
				for j := range req {
					req[j] = g.pick(g.keys())
				}
				if g.rng.Intn(5) == 0 { // a longer list with a name repeated in the middle: anything that compacts or sorts the caller's slice shows
					a, b, c := g.pick(g.keys()), g.pick(g.keys()), g.pick(g.keys())
					req = []interface{}{a, b, a, c}
					if g.rng.Intn(2) == 0 {
						req = append(req, b)
					}
				}
				s["required"] = req
			}
		case 7: // nullable-like / default
			s["default"] = g.value(1)
		case 8: // items
			switch g.rng.Intn(3) {
			case 0:
				s["items"] = g.schema(depth-1, true)
			default:
				n := g.rng.Intn(4)
				l := make([]interface{}, n)
				for j := range l {
					l[j] = g.schema(depth-1, true)
				}
				s["items"] = l
			}
			switch g.rng.Intn(4) {
			case 0:
				s["additionalItems"] = false
			case 1:
				s["additionalItems"] = g.schema(depth-1, true)
			case 2:
				s["additionalItems"] = true
			}
		case 9: // properties
			n := 1 + g.rng.Intn(3)
			props := jmap{}
			for j := 0; j < n; j++ {
				props[g.pick(g.keys())] = g.schema(depth-1, true)
			}
			s["properties"] = props
			switch g.rng.Intn(5) {
			case 0:
				s["additionalProperties"] = false
			case 1:
				s["additionalProperties"] = g.schema(depth-1, true)
			case 2:
				s["additionalProperties"] = true
			}
			if g.rng.Intn(3) == 0 {
				pp := jmap{}
				p := g.pick(genPatterns)
				if !g.malformed && p == "(" {
					p = "^x-"
				}
				pp[p] = g.schema(depth-1, true)
				s["patternProperties"] = pp
			}
		case 10: // composition
			kw := g.pick([]string{"allOf", "anyOf", "oneOf"})
			n := 1 + g.rng.Intn(3)
			l := make([]interface{}, n)
			for j := range l {
				l[j] = g.schema(depth-1, false) // no reference directly under a composition keyword (see C06 finding)
			}
			s[kw] = l
		case 11:
			s["not"] = g.schema(depth-1, false)
		default: // dependencies
			deps := jmap{}
			if g.rng.Intn(2) == 0 {
				deps[g.pick(g.keys())] = []interface{}{g.pick(g.keys())}
			} else {
				deps[g.pick(g.keys())] = g.schema(depth-1, false)
			}
			s["dependencies"] = deps
		}
	}
	return s
}

func asMap(v interface{}) (jmap, bool) { m, ok := v.(jmap); return m, ok }

// instanceFor builds an instance that tries to satisfy s (best effort), following references through defs.
func (g *sgen) instanceFor(s jmap, defs jmap, depth int) interface{} {
	if depth < -2 {
		return nil
	}
	if r, ok := s["$ref"].(string); ok {
		name := r[len("#/definitions/"):]
		if t, ok := asMap(defs[name]); ok {
			return g.instanceFor(t, defs, depth-1)
		}
		return g.value(1)
	}
	if en, ok := s["enum"].([]interface{}); ok && len(en) > 0 && g.rng.Intn(4) != 0 {
		return deepCopyJSON(en[g.rng.Intn(len(en))])
	}
	for _, kw := range []string{"allOf", "anyOf", "oneOf"} {
		if l, ok := s[kw].([]interface{}); ok && len(l) > 0 && g.rng.Intn(2) == 0 {
			if m, ok := asMap(l[g.rng.Intn(len(l))]); ok {
				return g.instanceFor(m, defs, depth-1)
			}
		}
	}
	tp := ""
	switch t := s["type"].(type) {
	case string:
		tp = t
	case []interface{}:
		if len(t) > 0 {
			tp, _ = t[g.rng.Intn(len(t))].(string)
		}
	}
	if tp == "" {
		switch {
		case s["properties"] != nil || s["required"] != nil || s["additionalProperties"] != nil || s["patternProperties"] != nil || s["dependencies"] != nil:
			tp = "object"
		case s["items"] != nil || s["additionalItems"] != nil || s["maxItems"] != nil || s["minItems"] != nil:
			tp = "array"
		case s["maximum"] != nil || s["minimum"] != nil || s["multipleOf"] != nil:
			tp = "number"
		case s["pattern"] != nil || s["maxLength"] != nil || s["minLength"] != nil || s["format"] != nil:
			tp = "string"
		default:
			return g.value(depth)
		}
	}
	switch tp {
	case "null":
		return nil
	case "boolean":
		return g.rng.Intn(2) == 0
	case "string":
		return g.pick(genStrings)
	case "integer":
		return json.Number(g.pick([]string{"0", "1", "2", "3", "4", "6", "7", "10", "-1", "-2", "100", "3.0"}))
	case "number":
		return g.num()
	case "array":
		n := g.rng.Intn(5)
		l := make([]interface{}, n)
		for i := range l {
			var is jmap
			switch it := s["items"].(type) {
			case jmap:
				is = it
			case []interface{}:
				if i < len(it) {
					is, _ = asMap(it[i])
				} else if ai, ok := asMap(s["additionalItems"]); ok {
					is = ai
				}
			default:
				if ai, ok := asMap(s["additionalItems"]); ok {
					is = ai
				}
			}
			if is != nil && g.rng.Intn(5) != 0 {
				l[i] = g.instanceFor(is, defs, depth-1)
			} else {
				l[i] = g.value(depth - 1)
			}
		}
		return l
	case "object":
		m := jmap{}
		if req, ok := s["required"].([]interface{}); ok {
			for _, k := range req {
				if ks, ok := k.(string); ok && g.rng.Intn(5) != 0 {
					m[ks] = g.value(depth - 1)
				}
			}
		}
		if props, ok := asMap(s["properties"]); ok {
			for k, ps := range props {
				if g.rng.Intn(3) != 0 {
					if pm, ok := asMap(ps); ok {
						m[k] = g.instanceFor(pm, defs, depth-1)
					}
				}
			}
		}
		extra := g.rng.Intn(3)
		for i := 0; i < extra; i++ {
			k := g.pick(g.keys())
			if _, ok := m[k]; ok {
				continue
			}
			if ap, ok := asMap(s["additionalProperties"]); ok && g.rng.Intn(3) != 0 {
				m[k] = g.instanceFor(ap, defs, depth-1)
			} else {
				m[k] = g.value(depth - 1)
			}
		}
		return m
	}
	return g.value(depth)
}

func (g *sgen) rootSchema(depth int) (jmap, jmap) {
	g.defNames = nil
	defs := jmap{}
	if g.rng.Intn(3) == 0 {
		n := 1 + g.rng.Intn(2)
		names := []string{"a", "b"}[:n]
		g.defNames = names
		for _, nm := range names {
			d := g.schema(depth-1, true)
			for d["$ref"] != nil { // a definition that is only a reference (possibly to itself) is not generated
				d = g.schema(depth-1, false)
			}
			defs[nm] = d
		}
	}
	s := g.schema(depth, true)
	delete(s, "$ref") // never at the root (ExpandSchema of a root-level $ref next to inline definitions panics in go-openapi/spec)
	if len(s) == 0 {
		s = g.schema(depth, false)
	}
	if len(defs) > 0 {
		s["definitions"] = defs
	}
	return s, defs
}

func schemaGen(seed int64, n int, tier string, out *bufio.Writer) {
	rng := rand.New(rand.NewSource(seed))
	g := &sgen{rng: rng}
	enc := json.NewEncoder(out)
	roots := []string{"", "root", "a.b"}
	for id := 0; id < n; id++ {
		g.malformed = id%5 == 4
		g.edgeNums = id%7 == 6
		g.schemaish = id%11 == 10
		depth := 1 + rng.Intn(3)
		s, defs := g.rootSchema(depth)
		var d interface{}
		if rng.Intn(10) < 7 {
			d = g.instanceFor(s, defs, depth+1)
		} else {
			d = g.value(depth + 1)
		}
		sb, _ := json.Marshal(s)
		db, _ := json.Marshal(d)
		c := schemaCase{ID: id, Schema: sb, Data: db, Root: roots[rng.Intn(len(roots))]}
		if g.malformed && rng.Intn(3) == 0 {
			c.UseNumber = true
		}
		if rng.Intn(16) == 0 || g.schemaish {
			c.Swagger = true
		}
		if g.schemaish {
			c.Root = []string{"", "default", "a.default", "properties", "x.example", "root"}[rng.Intn(6)]
			if m, ok := d.(jmap); ok && rng.Intn(2) == 0 { // an object that looks like an array schema, or half of one
				m["items"] = g.value(1)
				if rng.Intn(2) == 0 {
					m["type"] = g.pick([]string{"array", "object", "string"})
				}
			}
			db, _ = json.Marshal(d)
			c.Data = db
		}
		if rng.Intn(16) == 0 {
			c.Skip = true
		}
		if g.malformed && rng.Intn(8) == 0 {
			c.NoFormats = true
		}
		_ = enc.Encode(c)
	}
}
