package main

// C04 / C11: object recycling. Histories of calls through the recycling entry points, observed with the
// verif redeem hook (tenure mode: double redeems; recycling mode with poisoning and polluted pools: outcomes),
// and panics injected at the k-th invocation of a caller-supplied format checker.

import (
	"bufio"
	"encoding/json"
	stderrors "errors"
	"fmt"
	"sort"

	"github.com/go-openapi/errors"
	"github.com/go-openapi/spec"
	"github.com/go-openapi/strfmt"
	"github.com/go-openapi/validate"
)

// one call of a history
type poolCall struct {
	Kind   string      `json:"kind"`                 // oneshot | validator | param | header
	NilSch bool        `json:"nil_schema,omitempty"` // the schema argument is nil (the API accepts it)
	Schema *schemaCase `json:"schema,omitempty"`
	Simple *simpleCase `json:"simple,omitempty"`
}

type poolCase struct {
	ID    int        `json:"id"`
	Calls []poolCall `json:"calls"`
	// PanicAt > 0: the first call runs with a registry whose checker panics at its PanicAt-th invocation
	PanicAt int `json:"panic_at,omitempty"`
}

// panicky registry: delegates to strfmt.Default, panics at the k-th Validates call
type panicRegistry struct {
	strfmt.Registry
	calls   int
	panicAt int
}

func (p *panicRegistry) Validates(name, data string) bool {
	p.calls++
	if p.panicAt > 0 && p.calls == p.panicAt {
		panic("format checker failure injected by the harness")
	}
	return p.Registry.Validates(name, data)
}

type callOutcome struct {
	Outcome string   `json:"outcome"` // ok | panic
	Panic   string   `json:"panic,omitempty"`
	Nil     bool     `json:"nil,omitempty"`
	Valid   bool     `json:"valid"`
	Msgs    []string `json:"msgs"`
}

func outcomeOf(res *validate.Result) callOutcome {
	o := callOutcome{Outcome: "ok", Valid: res.IsValid(), Nil: res == nil, Msgs: []string{}}
	if res != nil {
		for _, e := range res.Errors {
			o.Msgs = append(o.Msgs, "E:"+e.Error())
		}
		for _, e := range res.Warnings {
			o.Msgs = append(o.Msgs, "W:"+e.Error())
		}
		sort.Strings(o.Msgs)
	}
	return o
}

// runCall performs one call; recycle selects the recycling entry points (one-shot is always recycling).
func runCall(c *poolCall, recycle bool, reg strfmt.Registry) (o callOutcome) {
	defer func() {
		if r := recover(); r != nil {
			o = callOutcome{Outcome: "panic", Panic: panicClass(r) + ": " + fmt.Sprint(r), Msgs: []string{}}
		}
	}()
	switch c.Kind {
	case "oneshot", "validator":
		sc := c.Schema
		s, err := parseSchema(sc.Schema)
		if err != nil {
			return callOutcome{Outcome: "undecodable", Msgs: []string{}}
		}
		d, _, err := caseData(sc, newEnc())
		if err != nil {
			return callOutcome{Outcome: "undecodable", Msgs: []string{}}
		}
		if reg == nil {
			reg = caseRegistry(sc)
		}
		if c.NilSch {
			s = nil
		}
		if c.Kind == "oneshot" && recycle {
			e := validate.AgainstSchema(s, d, reg, caseOptions(sc)...)
			o = callOutcome{Outcome: "ok", Valid: e == nil, Msgs: []string{}}
			if e != nil {
				var ce *errors.CompositeError
				if stderrors.As(e, &ce) {
					for _, m := range ce.Errors {
						o.Msgs = append(o.Msgs, "E:"+m.Error())
					}
				} else {
					o.Msgs = append(o.Msgs, "E:"+e.Error())
				}
				sort.Strings(o.Msgs)
			}
			return o
		}
		opts := caseOptions(sc)
		if recycle {
			opts = append(opts, validate.WithRecycleValidators(true))
		}
		root := sc.Root
		if c.Kind == "oneshot" {
			root = ""
		}
		return outcomeOf(validate.NewSchemaValidator(s, nil, root, reg, opts...).Validate(d))
	default:
		qc := c.Simple
		e := newEnc()
		val, _ := qc.Val.build(e)
		var opts []validate.Option
		if recycle {
			opts = append(opts, validate.WithRecycleValidators(true))
		}
		if reg == nil {
			reg = strfmt.Default
		}
		if c.Kind == "header" {
			h := new(spec.Header)
			if err := json.Unmarshal(qc.Def, h); err != nil {
				return callOutcome{Outcome: "undecodable", Msgs: []string{}}
			}
			return outcomeOf(validate.NewHeaderValidator(qc.Name, h, reg, opts...).Validate(val))
		}
		p := new(spec.Parameter)
		if err := json.Unmarshal(qc.Def, p); err != nil {
			return callOutcome{Outcome: "undecodable", Msgs: []string{}}
		}
		return outcomeOf(validate.NewParamValidator(p, reg, opts...).Validate(val))
	}
}

func sameOutcome(a, b callOutcome) bool {
	if a.Outcome != b.Outcome || a.Valid != b.Valid || a.Nil != b.Nil || len(a.Msgs) != len(b.Msgs) {
		return false
	}
	for i := range a.Msgs {
		if a.Msgs[i] != b.Msgs[i] {
			return false
		}
	}
	return true
}

func poolRun(in *bufio.Scanner, out *bufio.Writer) {
	for in.Scan() {
		var c poolCase
		if err := json.Unmarshal(in.Bytes(), &c); err != nil {
			continue
		}
		rec := map[string]interface{}{"id": c.ID}
		// reference: every call alone, fresh pools, recycling off
		ref := make([]callOutcome, len(c.Calls))
		for i := range c.Calls {
			validate.VerifReset(validate.VerifOff, false)
			ref[i] = runCall(&c.Calls[i], false, nil)
		}
		// tenure mode: redeemed objects never return to the pool, so each pointer is one tenure
		validate.VerifReset(validate.VerifTenure, true)
		tenure := make([]callOutcome, len(c.Calls))
		invocations := 0
		for i := range c.Calls {
			var reg strfmt.Registry
			if i == 0 {
				pr := &panicRegistry{Registry: strfmt.Default, panicAt: c.PanicAt}
				if c.Calls[0].Schema == nil || !c.Calls[0].Schema.NoFormats {
					reg = pr
				}
				tenure[i] = runCall(&c.Calls[i], true, reg)
				invocations = pr.calls
			} else {
				tenure[i] = runCall(&c.Calls[i], true, nil)
			}
		}
		stats, doubles := validate.VerifStats()
		// recycling mode: poisoned objects go back to polluted pools
		validate.VerifReset(validate.VerifRecycle, true)
		validate.VerifPollutePools(3)
		recycled := make([]callOutcome, len(c.Calls))
		for i := range c.Calls {
			var reg strfmt.Registry
			if i == 0 && c.PanicAt > 0 {
				reg = &panicRegistry{Registry: strfmt.Default, panicAt: c.PanicAt}
			}
			recycled[i] = runCall(&c.Calls[i], true, reg)
		}
		// plain recycling: nothing is poisoned, the objects come back as their last use left them (what a long-running
		// process sees); the history runs twice over the same pools, so that the first round is "whatever came before"
		validate.VerifReset(validate.VerifRecycle, false)
		plain := make([]callOutcome, len(c.Calls))
		for round := 0; round < 2; round++ {
			for i := range c.Calls {
				var reg strfmt.Registry
				if i == 0 && c.PanicAt > 0 {
					reg = &panicRegistry{Registry: strfmt.Default, panicAt: c.PanicAt}
				}
				plain[i] = runCall(&c.Calls[i], true, reg)
			}
		}
		validate.VerifReset(validate.VerifOff, false)
		var diffs []map[string]interface{}
		for i := range c.Calls {
			if c.PanicAt > 0 && i == 0 {
				continue // the aborted call itself has no outcome to compare
			}
			if !sameOutcome(ref[i], plain[i]) {
				diffs = append(diffs, map[string]interface{}{"call": i, "mode": "plain recycling, second round", "fresh": ref[i], "got": plain[i]})
			}
			if !sameOutcome(ref[i], tenure[i]) {
				diffs = append(diffs, map[string]interface{}{"call": i, "mode": "tenure", "fresh": ref[i], "got": tenure[i]})
			}
			if !sameOutcome(ref[i], recycled[i]) {
				diffs = append(diffs, map[string]interface{}{"call": i, "mode": "recycling+poison+pollution", "fresh": ref[i], "got": recycled[i]})
			}
		}
		rec["stats"] = stats
		rec["double_redeems"] = doubles
		rec["diffs"] = diffs
		rec["invocations"] = invocations
		rec["first_panicked"] = tenure[0].Outcome == "panic"
		rec["ncalls"] = len(c.Calls)
		b, _ := json.Marshal(rec)
		out.Write(b)
		out.WriteString("\n")
	}
}

func init() {
	props["pool"] = propCmd{gen: func(int64, int, string, *bufio.Writer) {}, run: poolRun}
}
