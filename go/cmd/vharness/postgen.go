package main

// Generator for C18 / C19: object schemas with defaults at depth and composition, instances that satisfy them
// with random subsets of members present and extra undescribed members.

import (
	"bufio"
	"encoding/json"
	"math/rand"
)

type pgen struct {
	rng *rand.Rand
	sg  *sgen
}

var postKeys = []string{"a", "b", "c", "d", "x-1", "é", "", "a.b"}

func (g *pgen) scalarSchema() (jmap, func() interface{}) {
	switch g.rng.Intn(4) {
	case 0:
		return jmap{"type": "string"}, func() interface{} { return g.sg.pick([]string{"s", "t", "héllo"}) }
	case 1:
		return jmap{"type": "integer"}, func() interface{} { return json.Number(g.sg.pick([]string{"1", "2", "7"})) }
	case 2:
		return jmap{"type": "boolean"}, func() interface{} { return g.rng.Intn(2) == 0 }
	default:
		return jmap{}, func() interface{} { return g.sg.value(1) }
	}
}

// object schema and a generator of instances valid against it
func (g *pgen) objectSchema(depth int, compose bool) (jmap, func() interface{}) {
	s := jmap{"type": "object"}
	props := jmap{}
	gens := map[string]func() interface{}{}
	n := 1 + g.rng.Intn(3)
	for i := 0; i < n; i++ {
		k := postKeys[g.rng.Intn(len(postKeys))]
		var ps jmap
		var pg func() interface{}
		switch {
		case depth > 0 && g.rng.Intn(3) == 0:
			ps, pg = g.objectSchema(depth-1, compose)
		case depth > 0 && g.rng.Intn(4) == 0:
			is, ig := g.objectSchema(depth-1, compose)
			ps = jmap{"type": "array", "items": is}
			pg = func() interface{} {
				l := make([]interface{}, g.rng.Intn(3))
				for j := range l {
					l[j] = ig()
				}
				return l
			}
		case depth > 0 && g.rng.Intn(5) == 0:
			// an array directly inside an array (and a tuple now and then): the objects are two levels of elements down
			is, ig := g.objectSchema(depth-1, compose)
			inner := jmap{"type": "array", "items": is}
			if g.rng.Intn(3) == 0 {
				inner = jmap{"type": "array", "items": []interface{}{is, is}}
			}
			ps = jmap{"type": "array", "items": inner}
			pg = func() interface{} {
				l := make([]interface{}, g.rng.Intn(3))
				for j := range l {
					in := make([]interface{}, g.rng.Intn(3))
					for k := range in {
						in[k] = ig()
					}
					l[j] = in
				}
				return l
			}
		default:
			ps, pg = g.scalarSchema()
		}
		if g.rng.Intn(2) == 0 {
			ps["default"] = pg()
		}
		props[k] = ps
		gens[k] = pg
	}
	s["properties"] = props
	var extraGen func() interface{}
	var patGen func() interface{}
	switch g.rng.Intn(5) {
	case 0:
		as, ag := g.scalarSchema()
		s["additionalProperties"] = as
		extraGen = ag
	case 1:
		s["additionalProperties"] = false
	case 2:
		ps, pg := g.scalarSchema()
		s["patternProperties"] = jmap{"^x-": ps}
		patGen = pg
	}
	var composeGens []func(m jmap)
	var kws []string
	if compose && depth > 0 && g.rng.Intn(2) == 0 {
		// one composition keyword, or several side by side on the same schema
		for _, kw := range []string{"allOf", "anyOf", "oneOf"} {
			if g.rng.Intn(2) == 0 {
				kws = append(kws, kw)
			}
		}
		if len(kws) == 0 {
			kws = []string{g.sg.pick([]string{"allOf", "anyOf", "oneOf"})}
		}
	}
	for _, kw := range kws {
		cs, cg := g.objectSchema(depth-1, false)
		delete(cs, "additionalProperties")
		if kw == "oneOf" {
			s[kw] = []interface{}{cs, jmap{"type": "string"}}
		} else if kw == "anyOf" {
			s[kw] = []interface{}{jmap{"type": "integer"}, cs}
		} else {
			s[kw] = []interface{}{cs}
		}
		composeGens = append(composeGens, func(m jmap) {
			if inner, ok := cg().(jmap); ok {
				for k, v := range inner {
					if _, have := m[k]; !have {
						if _, declared := props[k]; !declared {
							m[k] = v
						}
					}
				}
			}
		})
		if s["additionalProperties"] == false {
			delete(s, "additionalProperties")
		}
	}
	// a "not" the instances satisfy, next to the defaults: its branch reports nothing, and must not change what the other
	// keywords record
	if g.rng.Intn(4) == 0 {
		if g.rng.Intn(2) == 0 {
			s["not"] = jmap{"required": []interface{}{"legacy-member"}}
		} else {
			s["not"] = jmap{"type": "string"}
		}
	}
	gen := func() interface{} {
		m := jmap{}
		for k, pg := range gens {
			if g.rng.Intn(2) == 0 {
				m[k] = pg()
			}
		}
		for _, cg := range composeGens {
			cg(m)
		}
		if s["additionalProperties"] != false {
			for i := g.rng.Intn(3); i > 0; i-- { // undescribed members
				k := g.sg.pick([]string{"zz", "extra", "x-2", "id"})
				if _, have := m[k]; have {
					continue
				}
				switch {
				case patGen != nil && k == "x-2":
					m[k] = patGen()
				case extraGen != nil:
					m[k] = extraGen()
				default:
					if k == "x-2" && patGen == nil && s["patternProperties"] != nil {
						continue
					}
					m[k] = g.sg.value(1)
				}
			}
		}
		return m
	}
	return s, gen
}

func postGen(seed int64, n int, tier string, out *bufio.Writer) {
	rng := rand.New(rand.NewSource(seed))
	g := &pgen{rng: rng, sg: &sgen{rng: rng}}
	enc := json.NewEncoder(out)
	for id := 0; id < n; id++ {
		s, gen := g.objectSchema(1+rng.Intn(3), true)
		d := gen()
		if rng.Intn(6) == 0 { // through an array at the root
			s = jmap{"type": "array", "items": s}
			d = []interface{}{d, gen()}
		}
		sb, _ := json.Marshal(s)
		db, _ := json.Marshal(d)
		_ = enc.Encode(schemaCase{ID: id, Schema: sb, Data: db, Root: ""})
	}
}
