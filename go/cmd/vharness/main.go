// vharness: correspondence harness between go-openapi/validate (built from
// /repo's working tree) and the Coq models under /verif/coq.
//
//	vharness <property> gen  -seed S -n N      writes cases (JSON lines) to stdout
//	vharness <property> run                    reads cases on stdin, writes observations (JSON lines)
package main

import (
	"bufio"
	"flag"
	"fmt"
	"os"
)

type propCmd struct {
	gen func(seed int64, n int, tier string, out *bufio.Writer)
	run func(in *bufio.Scanner, out *bufio.Writer)
}

var props = map[string]propCmd{}

func main() {
	if len(os.Args) < 3 {
		fmt.Fprintln(os.Stderr, "usage: vharness <property> gen|run [flags]")
		os.Exit(2)
	}
	p, ok := props[os.Args[1]]
	if !ok {
		fmt.Fprintln(os.Stderr, "unknown property", os.Args[1])
		os.Exit(2)
	}
	fs := flag.NewFlagSet("vharness", flag.ExitOnError)
	seed := fs.Int64("seed", 1, "PRNG seed")
	n := fs.Int("n", 100, "number of cases")
	tier := fs.String("tier", "quick", "tier")
	_ = fs.Parse(os.Args[3:])
	out := bufio.NewWriterSize(os.Stdout, 1<<20)
	defer out.Flush()
	switch os.Args[2] {
	case "gen":
		p.gen(*seed, *n, *tier, out)
	case "run":
		sc := bufio.NewScanner(os.Stdin)
		sc.Buffer(make([]byte, 1<<20), 1<<28)
		p.run(sc, out)
	default:
		fmt.Fprintln(os.Stderr, "unknown mode", os.Args[2])
		os.Exit(2)
	}
}
