package main

// C09: every place of a specification that carries a default or an example, in the order and under the path names
// the default / example validators build (default_validator.go, example_validator.go), each judged here by the
// validator of its own schema; plus what spec validation reports for the document.

import (
	"bufio"
	"encoding/json"
	"fmt"
	"sort"
	"strconv"
	"strings"

	"github.com/go-openapi/analysis"
	"github.com/go-openapi/spec"
	"github.com/go-openapi/strfmt"
	"github.com/go-openapi/validate"
)

type siteNode struct {
	ID     int      `json:"id"`
	Kind   string   `json:"kind"`  // default | example
	Where  string   `json:"where"` // container kind: definition, body parameter, response, simple parameter, header, items, response examples
	Via    string   `json:"via"`   // how the schema is reached from its root: "", properties, items, tuple items, additionalProperties, allOf, ...
	Path   string   `json:"path"`
	Judged int      `json:"judged"` // 0 no value, 1 accepted, 2 rejected
	Msgs   []string `json:"msgs"`
	Walked bool     `json:"walked"`
	Size   int      `json:"size"`
	Group  int      `json:"group"`
	Depth  int      `json:"depth"`
}

type siteWalker struct {
	kind   string
	root   *spec.Swagger
	nodes  []siteNode
	group  int
	nextID *int
}

func judge(res *validate.Result) (int, []string) {
	if res == nil {
		return 1, nil
	}
	if res.HasErrorsOrWarnings() {
		m := texts(res.Errors)
		m = append(m, texts(res.Warnings)...)
		return 2, m
	}
	return 1, nil
}

func (w *siteWalker) add(n siteNode) int {
	n.ID = *w.nextID
	*w.nextID++
	n.Kind = w.kind
	n.Group = w.group
	w.nodes = append(w.nodes, n)
	return len(w.nodes) - 1
}

func (w *siteWalker) valueOf(s *spec.Schema) interface{} {
	if w.kind == "default" {
		return s.Default
	}
	return s.Example
}

// schema transcribes validateDefaultValueSchemaAgainstSchema / validateExampleValueSchemaAgainstSchema (children in sorted order)
func (w *siteWalker) schema(path, where, via string, depth int, s *spec.Schema) {
	if s == nil {
		return
	}
	idx := w.add(siteNode{Where: where, Via: via, Path: path, Walked: true, Depth: depth})
	if v := w.valueOf(s); v != nil {
		res := validate.NewSchemaValidator(s, w.root, path+"."+w.kind, strfmt.Default, validate.SwaggerSchema(true)).Validate(v)
		w.nodes[idx].Judged, w.nodes[idx].Msgs = judge(res)
	}
	if s.Items != nil {
		if s.Items.Schema != nil {
			w.schema(path+".items."+w.kind, where, "items", depth+1, s.Items.Schema)
		}
		for i := range s.Items.Schemas {
			sch := s.Items.Schemas[i] // the walkers range by value: the member is judged through a copy
			w.schema(fmt.Sprintf("%s.items[%d].%s", path, i, w.kind), where, "tuple items", depth+1, &sch)
		}
	}
	if s.AdditionalItems != nil && s.AdditionalItems.Schema != nil {
		w.schema(path+".additionalItems", where, "additionalItems", depth+1, s.AdditionalItems.Schema)
	}
	for _, k := range sortedKeys(s.Properties) {
		p := s.Properties[k]
		w.schema(path+"."+k, where, "properties", depth+1, &p)
	}
	for _, k := range sortedKeys(s.PatternProperties) {
		p := s.PatternProperties[k]
		w.schema(path+"."+k, where, "patternProperties", depth+1, &p)
	}
	if s.AdditionalProperties != nil && s.AdditionalProperties.Schema != nil {
		w.schema(path+".additionalProperties", where, "additionalProperties", depth+1, s.AdditionalProperties.Schema)
	}
	for i := range s.AllOf {
		ao := s.AllOf[i] // by value, as the walkers do
		w.schema(fmt.Sprintf("%s.allOf[%d]", path, i), where, "allOf", depth+1, &ao)
	}
	w.nodes[idx].Size = len(w.nodes) - idx - 1
}

func sortedKeys(m map[string]spec.Schema) []string {
	out := make([]string, 0, len(m))
	for k := range m {
		out = append(out, k)
	}
	sort.Strings(out)
	return out
}

func (w *siteWalker) items(path, in, where string, depth int, root interface{}, items *spec.Items) {
	if items == nil {
		return
	}
	var v interface{}
	if w.kind == "default" {
		v = items.Default
	} else {
		v = items.Example
	}
	n := siteNode{Where: where + " items", Via: "items", Path: path, Depth: depth}
	if v != nil {
		n.Judged, n.Msgs = judge(validate.VerifValidateItems(path, in, items, root, strfmt.Default, v))
	}
	w.add(n)
	if items.Items != nil {
		w.items(path+"[0]."+w.kind, in, where, depth+1, root, items.Items)
	}
}

func (w *siteWalker) param(param spec.Parameter) {
	w.group++
	var v interface{}
	if w.kind == "default" {
		v = param.Default
	} else {
		v = param.Example
	}
	if v != nil && param.Schema == nil {
		n := siteNode{Where: "simple parameter", Path: param.Name}
		n.Judged, n.Msgs = judge(validate.NewParamValidator(&param, strfmt.Default).Validate(v))
		w.add(n)
	}
	if param.Items != nil {
		w.items(param.Name, param.In, "simple parameter", 1, &param, param.Items)
	}
	if param.Schema != nil {
		w.schema(param.Name, "body parameter", "", 0, param.Schema)
	}
}

func (w *siteWalker) response(resp *spec.Response, codeStr, urlPath string) {
	if resp == nil {
		return
	}
	if resp.Ref.String() != "" {
		if err := spec.ExpandResponseWithRoot(resp, w.root, nil); err != nil {
			return
		}
	}
	hk := make([]string, 0, len(resp.Headers))
	for k := range resp.Headers {
		hk = append(hk, k)
	}
	sort.Strings(hk)
	for _, nm := range hk {
		h := resp.Headers[nm]
		w.group++
		var v interface{}
		if w.kind == "default" {
			v = h.Default
		} else {
			v = h.Example
		}
		if v != nil {
			n := siteNode{Where: "header", Path: nm}
			n.Judged, n.Msgs = judge(validate.NewHeaderValidator(nm, &h, strfmt.Default).Validate(v))
			w.add(n)
		}
		if h.Items != nil {
			w.items(nm, "header", "header", 1, &h, h.Items)
		}
	}
	if resp.Schema != nil {
		w.group++
		w.schema(codeStr, "response", "", 0, resp.Schema)
	}
	if w.kind == "example" && resp.Examples != nil && resp.Schema != nil {
		if ex, ok := resp.Examples["application/json"]; ok {
			w.group++
			n := siteNode{Where: "response examples", Path: urlPath + ".examples"}
			n.Judged, n.Msgs = judge(validate.NewSchemaValidator(resp.Schema, w.root, urlPath+".examples", strfmt.Default, validate.SwaggerSchema(true)).Validate(ex))
			w.add(n)
		}
	}
}

// unreferencedShared: the parameters and responses declared at the top level that no operation refers to; the
// validators never reach them (they are only warned about as unused)
func unreferencedShared(c *specCase) (nodes []siteNode) {
	defer func() {
		if r := recover(); r != nil {
			nodes = nil
			validate.VerifReset(validate.VerifOff, false)
		}
	}()
	doc, err := loadDoc(c)
	if err != nil {
		return nil
	}
	raw := string(doc.Raw())
	next := 1000000
	for _, kind := range []string{"default", "example"} {
		w := &siteWalker{kind: kind, root: doc.Spec(), nextID: &next, group: -1}
		pk := make([]string, 0)
		for k := range doc.Spec().Parameters {
			pk = append(pk, k)
		}
		sort.Strings(pk)
		for _, k := range pk {
			b, _ := json.Marshal("#/parameters/" + k)
			if strings.Contains(raw, string(b)) {
				continue
			}
			w.param(doc.Spec().Parameters[k])
		}
		rk := make([]string, 0)
		for k := range doc.Spec().Responses {
			rk = append(rk, k)
		}
		sort.Strings(rk)
		for _, k := range rk {
			b, _ := json.Marshal("#/responses/" + k)
			if strings.Contains(raw, string(b)) {
				continue
			}
			r := doc.Spec().Responses[k]
			w.response(&r, k, "#/responses/"+k)
		}
		nodes = append(nodes, w.nodes...)
	}
	return nodes
}

func enumerateSites(c *specCase) (nodes []siteNode, note string) {
	defer func() {
		if r := recover(); r != nil {
			nodes, note = nil, "enumeration panicked: "+fmt.Sprint(r)
			validate.VerifReset(validate.VerifOff, false)
		}
	}()
	next := 0
	// one document for both walks, defaults first: judging a value expands the references of its schema in place, and
	// the example validator walks what the default validator left behind
	doc, err := loadDoc(c)
	if err != nil {
		return nil, "unloadable"
	}
	exp, err := doc.Expanded()
	if err != nil || exp == nil {
		return nil, "expansion failed"
	}
	an := exp.Analyzer
	if an == nil {
		an = analysis.New(exp.Spec())
	}
	for _, kind := range []string{"default", "example"} {
		w := &siteWalker{kind: kind, root: doc.Spec(), nextID: &next}
		if kind == "example" {
			w.group = 100000
		}
		ops := an.Operations()
		methods := make([]string, 0, len(ops))
		for m := range ops {
			methods = append(methods, m)
		}
		sort.Strings(methods)
		for _, m := range methods {
			paths := make([]string, 0, len(ops[m]))
			for p := range ops[m] {
				paths = append(paths, p)
			}
			sort.Strings(paths)
			for _, p := range paths {
				op := ops[m][p]
				merged := an.SafeParamsFor(m, p, nil)
				keys := make([]string, 0, len(merged))
				for k := range merged {
					keys = append(keys, k)
				}
				sort.Strings(keys)
				for _, k := range keys {
					w.param(merged[k])
				}
				if op.Responses != nil {
					if op.Responses.Default != nil {
						w.response(op.Responses.Default, "default", p)
					}
					codes := make([]int, 0, len(op.Responses.StatusCodeResponses))
					for code := range op.Responses.StatusCodeResponses {
						codes = append(codes, code)
					}
					sort.Ints(codes)
					for _, code := range codes {
						r := op.Responses.StatusCodeResponses[code]
						w.response(&r, strconv.Itoa(code), p)
					}
				}
			}
		}
		// the definitions share one visited set
		w.group++
		defs := doc.Spec().Definitions
		for _, nm := range sortedKeys(defs) {
			d := defs[nm]
			w.schema("definitions."+nm, "definition", "", 0, &d)
		}
		nodes = append(nodes, w.nodes...)
	}
	return nodes, ""
}

func sitesRun(in *bufio.Scanner, out *bufio.Writer) {
	for in.Scan() {
		var c specCase
		if err := json.Unmarshal(in.Bytes(), &c); err != nil {
			continue
		}
		rec := map[string]interface{}{"id": c.ID}
		nodes, note := enumerateSites(&c)
		if note != "" {
			rec["skip"] = note
		}
		rec["sites"] = nodes
		rec["unwalked"] = unreferencedShared(&c)
		runs := map[string]specRun{}
		for _, cont := range []bool{false, true} {
			runs[fmt.Sprintf("cont=%v", cont)] = runSpec(&c, cont, true)
		}
		rec["runs"] = runs
		fp, _ := firstPass(&c)
		rec["first_pass_valid"] = fp.Outcome == "ok" && fp.Valid
		// model input: groups of nodes in pre-order
		var groups []string
		cur, curG := []string{}, -1
		for _, n := range nodes {
			if n.Group != curG {
				if curG != -1 {
					groups = append(groups, "("+strings.Join(cur, " ")+")")
				}
				cur, curG = []string{}, n.Group
			}
			cur = append(cur, fmt.Sprintf("(%d %s %d %d %d)", n.ID, bytesSx(n.Path), n.Judged, n.Size, b2i(n.Walked)))
		}
		if curG != -1 {
			groups = append(groups, "("+strings.Join(cur, " ")+")")
		}
		rec["sx"] = "(" + strings.Join(groups, " ") + ")"
		b, _ := json.Marshal(rec)
		out.Write(b)
		out.WriteString("\n")
	}
}

func init() {
	props["sites"] = propCmd{gen: func(int64, int, string, *bufio.Writer) {}, run: sitesRun}
}
