package main

// C13: one numeric constraint, one mathematical value, every carrier and entry point.

import (
	"bufio"
	"encoding/json"
	"fmt"
	"math"
	"strconv"

	"github.com/go-openapi/validate"
)

type numCase struct {
	ID     int      `json:"id"`
	Group  int      `json:"group"` // cases of one group carry the same mathematical value and constraint
	Entry  string   `json:"entry"` // helper | param | header | schema | schema-jnum
	Kind   string   `json:"kind"`  // maximum | minimum | multipleOf
	C      string   `json:"c"`     // constraint literal
	Excl   bool     `json:"excl,omitempty"`
	Val    typedVal `json:"val"`
	Type   string   `json:"type,omitempty"` // declared type for param / header / schema
	Format string   `json:"format,omitempty"`
}

func (c *numCase) def() jmap {
	d := jmap{}
	if c.Type != "" {
		d["type"] = c.Type
	}
	if c.Format != "" {
		d["format"] = c.Format
	}
	d[c.Kind] = json.Number(c.C)
	if c.Excl && c.Kind == "maximum" {
		d["exclusiveMaximum"] = true
	}
	if c.Excl && c.Kind == "minimum" {
		d["exclusiveMinimum"] = true
	}
	return d
}

func numRun(in *bufio.Scanner, out *bufio.Writer) {
	for in.Scan() {
		var c numCase
		if err := json.Unmarshal(in.Bytes(), &c); err != nil {
			continue
		}
		rec := map[string]interface{}{"id": c.ID, "group": c.Group}
		switch c.Entry {
		case "helper":
			e := newEnc()
			val, valSx := c.Val.build(e)
			cf, _ := strconv.ParseFloat(c.C, 64)
			fn := map[string]int{"maximum": 0, "minimum": 1, "multipleOf": 2}[c.Kind]
			rec["entry"] = "helper"
			rec["sx"] = fmt.Sprintf("(%d %s %d %d)", fn, valSx, math.Float64bits(cf), b2i(c.Excl))
			obs := func() (o map[string]interface{}) {
				defer func() {
					if r := recover(); r != nil {
						o = map[string]interface{}{"outcome": "panic", "panic": fmt.Sprint(r)}
					}
				}()
				var ev interface{ Code() int32 }
				switch c.Kind {
				case "maximum":
					if x := validate.MaximumNativeType("p", "query", val, cf, c.Excl); x != nil {
						ev = x
					}
				case "minimum":
					if x := validate.MinimumNativeType("p", "query", val, cf, c.Excl); x != nil {
						ev = x
					}
				default:
					if x := validate.MultipleOfNativeType("p", "query", val, cf); x != nil {
						ev = x
					}
				}
				o = map[string]interface{}{"outcome": "ok", "valid": ev == nil, "code": 0}
				if ev != nil {
					o["code"] = ev.Code()
				}
				return o
			}()
			rec["go"] = obs
		case "param", "header":
			d := c.def()
			sc := simpleCase{ID: c.ID, Header: c.Entry == "header", Val: c.Val, Name: "h"}
			if !sc.Header {
				d["name"] = "p"
				d["in"] = "query"
			}
			sc.Def, _ = json.Marshal(d)
			sx, texts, val, why := simpleModelInput(&sc)
			if why != "" {
				rec["skip"] = why
				break
			}
			rec["entry"] = "simple"
			rec["sx"] = sx
			rec["strings"] = texts
			rec["go"] = runSimple(&sc, val)
		default: // schema, schema-jnum
			d := c.def()
			sb, _ := json.Marshal(d)
			sc := schemaCase{ID: c.ID, Schema: sb, Root: "p"}
			if c.Entry == "schema-jnum" {
				sc.Data = json.RawMessage(c.Val.V)
				sc.UseNumber = true
			} else {
				tv := c.Val
				sc.Typed = &tv
			}
			sx, texts, why := modelInput(&sc, 16)
			if why != "" {
				rec["skip"] = why
				break
			}
			rec["entry"] = "schema"
			rec["sx"] = sx
			rec["strings"] = texts
			run, _ := runValidator(&sc)
			rec["go"] = run
		}
		b, _ := json.Marshal(rec)
		out.Write(b)
		out.WriteString("\n")
	}
}

func init() {
	props["num"] = propCmd{gen: func(int64, int, string, *bufio.Writer) {}, run: numRun}
}
