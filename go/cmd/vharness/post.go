package main

// C18 / C19: post.ApplyDefaults and post.Prune on the result of a (non recycling) validation.

import (
	"bufio"
	"encoding/json"
	"fmt"

	"github.com/go-openapi/validate"
	"github.com/go-openapi/validate/post"
)

func postOnce(c *schemaCase, prune bool) (valid bool, data interface{}, panicMsg string) {
	defer func() {
		if r := recover(); r != nil {
			panicMsg = panicClass(r) + ": " + fmt.Sprint(r)
		}
	}()
	s, err := parseSchema(c.Schema)
	if err != nil {
		return false, nil, "undecodable"
	}
	d, err := parseData(c.Data, false)
	if err != nil {
		return false, nil, "undecodable"
	}
	res := validate.NewSchemaValidator(s, nil, c.Root, caseRegistry(c), caseOptions(c)...).Validate(d)
	if prune {
		post.Prune(res)
	} else {
		post.ApplyDefaults(res)
	}
	return res.IsValid(), d, ""
}

func postRun(in *bufio.Scanner, out *bufio.Writer) {
	for in.Scan() {
		var c schemaCase
		if err := json.Unmarshal(in.Bytes(), &c); err != nil {
			continue
		}
		rec := map[string]interface{}{"id": c.ID}
		sx, texts, why := modelInput(&c, caseFuel(&c))
		if why != "" {
			rec["skip"] = why
		} else {
			e := lastSchemaEnc
			rec["sx"] = sx
			v1, d1, p1 := postOnce(&c, false)
			v2, d2, p2 := postOnce(&c, true)
			if p1 != "" || p2 != "" {
				rec["go"] = map[string]interface{}{"outcome": "panic", "panic": p1 + p2}
			} else {
				dj, _ := json.Marshal(d1)
				pj, _ := json.Marshal(d2)
				// pruning again what was pruned: validate the pruned data and prune once more
				var again json.RawMessage
				c2 := c
				c2.Data = pj
				_, d3, p3 := postOnce(&c2, true)
				if p3 == "" {
					again, _ = json.Marshal(d3)
				}
				rec["go"] = map[string]interface{}{"outcome": "ok", "valid": v1, "valid2": v2,
					"defaulted": e.goval(d1, false), "pruned": e.goval(d2, false),
					"defaulted_json": json.RawMessage(dj), "pruned_json": json.RawMessage(pj), "pruned_twice_json": again}
			}
			rec["strings"] = append([]string(nil), e.in.texts...)
			_ = texts
		}
		b, _ := json.Marshal(rec)
		out.Write(b)
		out.WriteString("\n")
	}
}

func init() {
	props["post"] = propCmd{gen: postGen, run: postRun}
}
